#!/bin/bash
# usage: tools/runall.sh [budget-seconds] [props...]; runs every check's quick tier and prints one line each
cd "$(dirname "$0")/.."
b=${1:-8}; shift
props=${@:-C01 C02 C03 C04 C05 C06 C07 C08 C09 C10 C11 C12 C13 C14 C15 C16 C17 C18 C19 C20}
rc=0
for p in $props; do
  out=$(./bin/vcheck $p --budget $b 2>&1); e=$?
  echo "$(echo "$out" | tail -1) [exit $e]"
  if [ $e -ne 0 ]; then echo "$out" | grep -A2 "VIOLATION\|vcheck:" | head -12; rc=1; fi
done
exit $rc
