#!/usr/bin/env python3
"""Own sensitivity wave: applies each deliberate property-breaking change to /repo's working
tree, runs the property's quick check, reverts the tree, and reports whether it was caught.
Nothing is ever committed to /repo. usage: mutants.py [--budget N] [--tests] [name-substr...]"""
import subprocess, sys, os, json, time

R = "/repo/"
M = []
def m(prop, name, file, old, new, also=()):
    M.append(dict(prop=prop, name=name, file=file, old=old, new=new, also=also))

# ---- C01
m("C01","start-swap-user-port-len","authenticate.go",
  "\tbuf = append(buf, uint8(a.User.Len()))\n\tbuf = append(buf, uint8(a.Port.Len()))\n\tbuf = append(buf, uint8(a.RemAddr.Len()))\n\tbuf = append(buf, uint8(a.Data.Len()))\n",
  "\tbuf = append(buf, uint8(a.Port.Len()))\n\tbuf = append(buf, uint8(a.User.Len()))\n\tbuf = append(buf, uint8(a.RemAddr.Len()))\n\tbuf = append(buf, uint8(a.Data.Len()))\n",
  also=[("authenticate.go","\tuserLen := buf.int()\n\tportLen := buf.int()\n\tremAddrLen := buf.int()\n\tdataLen := buf.int()\n\n\ta.User = AuthenUser(buf.string(userLen))",
         "\tportLen := buf.int()\n\tuserLen := buf.int()\n\tremAddrLen := buf.int()\n\tdataLen := buf.int()\n\n\ta.User = AuthenUser(buf.string(userLen))")])
m("C01","uint16-little-endian","packet.go",
  "\treturn append(b, byte(i>>8), byte(i))","\treturn append(b, byte(i), byte(i>>8))",
  also=[("packet.go","\t\tn := int(s[0])<<8 | int(s[1])","\t\tn := int(s[1])<<8 | int(s[0])")])
m("C01","acctreply-status-first","accounting.go",
  "\tbuf = appendUint16(buf, a.ServerMsg.Len())\n\tbuf = appendUint16(buf, a.Data.Len())\n\tbuf = append(buf, uint8(a.Status))\n",
  "\tbuf = append(buf, uint8(a.Status))\n\tbuf = appendUint16(buf, a.ServerMsg.Len())\n\tbuf = appendUint16(buf, a.Data.Len())\n",
  also=[("accounting.go","\tserverMsgLen := buf.uint16()\n\tdataLen := buf.uint16()\n\ta.Status = AcctReplyStatus(buf.byte())\n","\ta.Status = AcctReplyStatus(buf.byte())\n\tserverMsgLen := buf.uint16()\n\tdataLen := buf.uint16()\n")])
m("C01","version-nibbles-swapped","header_fields.go",
  "\treturn []byte{v.MajorVersion<<4 | v.MinorVersion}, nil","\treturn []byte{v.MinorVersion<<4 | v.MajorVersion}, nil",
  also=[("header_fields.go","\tv.MajorVersion = data[0] >> 4\n\tv.MinorVersion = data[0] & 0xf","\tv.MinorVersion = data[0] >> 4\n\tv.MajorVersion = data[0] & 0xf")])
m("C01","session-id-little-endian","header.go",
  "\tbinary.BigEndian.PutUint32(buf[4:], uint32(h.SessionID))","\tbinary.LittleEndian.PutUint32(buf[4:], uint32(h.SessionID))",
  also=[("header.go","\th.SessionID = SessionID(binary.BigEndian.Uint32(data[4:]))","\th.SessionID = SessionID(binary.LittleEndian.Uint32(data[4:]))"),
        ("header_fields.go","\tbinary.BigEndian.PutUint32(sb, uint32(*s))","\tbinary.LittleEndian.PutUint32(sb, uint32(*s))")])
# ---- C02
m("C02","arg-length-check-dropped","authorize_fields.go",
  "\tif len(t) < 2 || len(t) > 255 {","\tif len(t) < 2 {")
m("C02","authorreply-validate-dropped","authorize.go",
  "func (a *AuthorReply) MarshalBinary() ([]byte, error) {\n\t// validate\n\tif err := a.Validate(); err != nil {\n\t\treturn nil, err\n\t}\n",
  "func (a *AuthorReply) MarshalBinary() ([]byte, error) {\n")
m("C02","fits-check-continue-dropped","authenticate.go",
  "\tif err := fitsUint16(a.UserMessage.Len(), a.Data.Len()); err != nil {\n\t\treturn err\n\t}\n","")
# ---- C03
m("C03","pad-seq-plus-one","crypt.go","\tseqNo := []byte{byte(p.Header.SeqNo)}","\tseqNo := []byte{byte(p.Header.SeqNo) + 1}")
m("C03","pad-stops-chaining","crypt.go","\t\th.Write(lastHash)\n","\t\tif len(pad) < 32 {\n\t\t\th.Write(lastHash)\n\t\t}\n")
m("C03","pad-version-minor-only","crypt.go","\t\th.Write(version)\n","\t\th.Write([]byte{version[0] & 0x0f})\n")
m("C03","clear-flag-ignored-on-long-bodies","crypt.go","\tif p.Header.Flags.Has(UnencryptedFlag) {\n\t\treturn nil\n\t}\n\n\tsessionID","\tif p.Header.Flags.Has(UnencryptedFlag) && len(p.Body) < 4096 {\n\t\treturn nil\n\t}\n\n\tsessionID")
# ---- C04
m("C04","authenstart-minlen-guard-weakened","authenticate.go",
  "\tif len(data) < AuthenStartLen {","\tif len(data) < AuthenStartLen-5 {")
m("C04","acctrequest-direct-index","accounting.go",
  "\tif len(data) < AcctRequestLen {","\tif len(data) < AcctRequestLen-1 {")
m("C04","max-body-check-removed","crypt.go",
  "\tif s > int(MaxBodyLength) {\n\t\treturn nil, fmt.Errorf(\"max header length exceeded in crypt read, aborting\")\n\t}\n","")
# ---- C05
m("C05","header-single-read","crypt.go",
  "\tif _, err := io.ReadFull(c.Reader, h); err != nil {","\tif _, err := c.Reader.Read(h); err != nil {")
m("C05","body-single-read","crypt.go",
  "\tif _, err := io.ReadFull(c.Reader, b); err != nil {","\tif _, err := c.Reader.Read(b); err != nil {")
m("C05","fresh-bufio-per-packet","crypt.go",
  "\th := make([]byte, MaxHeaderLength)\n","\th := make([]byte, MaxHeaderLength)\n\tc.Reader = bufio.NewReaderSize(c.Conn, 107)\n")
m("C05","length-24-bits","crypt.go",
  "\ts := int(binary.BigEndian.Uint32(h[8:]))","\ts := int(binary.BigEndian.Uint32(h[8:]) & 0x00ffffff)")
m("C05","bound-check-after-read","crypt.go",
  "\tif s > int(MaxBodyLength) {\n\t\treturn nil, fmt.Errorf(\"max header length exceeded in crypt read, aborting\")\n\t}\n\tb := make([]byte, s)\n\tif _, err := io.ReadFull(c.Reader, b); err != nil {\n\t\tcrypterReadError.Inc()\n\t\treturn nil, err\n\t}\n",
  "\tb := make([]byte, s)\n\tif _, err := io.ReadFull(c.Reader, b); err != nil {\n\t\tcrypterReadError.Inc()\n\t\treturn nil, err\n\t}\n\tif s > int(MaxBodyLength) {\n\t\treturn nil, fmt.Errorf(\"max header length exceeded in crypt read, aborting\")\n\t}\n")
# ---- C06
m("C06","reply-default-minor","handlers.go","\t\tSetHeaderVersion(r.header.Version),","\t\tSetHeaderVersion(Version{MajorVersion: MajorVersion, MinorVersion: MinorVersionDefault}),")
m("C06","reply-known-flags-only","handlers.go","\t\tSetHeaderFlag(r.header.Flags),","\t\tSetHeaderFlag(r.header.Flags & (UnencryptedFlag | SingleConnect)),")
m("C06","length-left-as-set","crypt.go","\tp.Header.Length = uint32(len(p.Body))\n\tif err := crypt(c.secret, p); err != nil {","\tif p.Header.Length == 0 {\n\t\tp.Header.Length = uint32(len(p.Body))\n\t}\n\tif err := crypt(c.secret, p); err != nil {")
m("C06","seq-8bit-wraps","header_fields.go","\tcase v > HeaderMaxSequence:\n\t\treturn fmt.Errorf(\"headerMaxSequence exceeded [%v]\", t)","\tcase uint8(v) > HeaderMaxSequence:\n\t\treturn fmt.Errorf(\"headerMaxSequence exceeded [%v]\", t)")
# ---- C07
m("C07","pap-missing-return-after-fail","cmds/server/handlers/authen_pap.go",
  "\t\t\t\ttq.SetAuthenReplyServerMsg(\"missing password\"),\n\t\t\t),\n\t\t\ta.recorderWriter,\n\t\t)\n\t\treturn\n","\t\t\t\ttq.SetAuthenReplyServerMsg(\"missing password\"),\n\t\t\t),\n\t\t\ta.recorderWriter,\n\t\t)\n")
m("C07","acct-reply-before-and-after-sink","cmds/server/config/accounters/local/local.go",
  "\tcase tq.AcctFlagStop:\n","\tcase tq.AcctFlagStop:\n\t\tresponse.Reply(tq.NewAcctReply(tq.SetAcctReplyStatus(tq.AcctReplyStatusSuccess)))\n")
m("C07","process-after-sequence-error","server.go",
  "\t\t\t\ts.Errorf(ctx, \"unable to obtain a session; connection will close; %v\", err)\n\t\t\t\treturn","\t\t\t\ts.Errorf(ctx, \"unable to obtain a session; connection will close; %v\", err)\n\t\t\t\tcontinue")
m("C07","keychain-error-missing-return","cmds/server/config/authenticators/bcrypt/bcrypt.go",
  "\t\t\t\t\ttq.SetAuthenReplyServerMsg(\"login failure\"),\n\t\t\t\t),\n\t\t\t)\n\t\t\treturn\n\t\t}\n\t\texpectedHash = secret\n\t}","\t\t\t\t\ttq.SetAuthenReplyServerMsg(\"login failure\"),\n\t\t\t\t),\n\t\t\t)\n\t\t}\n\t\texpectedHash = secret\n\t}")
# ---- C08
m("C08","parity-check-dropped","sessions.go","\tif err := ClientSequenceNumber(h.SeqNo).Validate(nil); err != nil {","\tif err := ClientSequenceNumber(h.SeqNo | 1).Validate(nil); err != nil {")
m("C08","last-seq-gt-instead-of-ge","header_fields.go","\tif last >= current {","\tif last > current {")
m("C08","compare-against-request-number","server.go","\t\t\tsessionProvider.update(resp.header, resp.next)","\t\t\tsessionProvider.update(req.Header, resp.next)")
m("C08","delete-skipped","server.go","\t\t\t\tsessionProvider.delete(req.Header.SessionID)\n\t\t\t\tcontinue","\t\t\t\tcontinue")
m("C08","session-key-16bit","sessions.go","\tsc, ok := s.known[h.SessionID]\n\tif !ok {\n\t\tsessionsGetMiss.Inc()\n\t\treturn nil, nil\n\t}","\tsc, ok := s.known[h.SessionID&0xffff]\n\tif !ok {\n\t\tsessionsGetMiss.Inc()\n\t\treturn nil, nil\n\t}",
  also=[("sessions.go","\ts.known[h.SessionID] = &sessionContext{header: h, Handler: n, timer: timer}","\ts.known[h.SessionID&0xffff] = &sessionContext{header: h, Handler: n, timer: timer}")])
# ---- C09
m("C09","shared-ascii-handler-per-connection","cmds/server/handlers/start.go",
  "\t\tNewAuthenticateStart(s.loggerProvider, s.configProvider).Handle(response, request)","\t\tif s.authen == nil {\n\t\t\ts.authen = NewAuthenticateStart(s.loggerProvider, s.configProvider)\n\t\t}\n\t\ts.authen.Handle(response, request)",
  also=[("cmds/server/handlers/start.go","\toptions map[string]string\n}","\toptions map[string]string\n\tauthen  *AuthenticateStart\n}"),
        ("cmds/server/handlers/authen.go","\tauthenRouter := map[authenActionStart]tq.Handler{","\tif a.ascii == nil || a.ascii.username == \"\" {\n\t\ta.ascii = NewAuthenticateASCII(a.loggerProvider, a.configProvider, string(body.User))\n\t}\n\tauthenRouter := map[authenActionStart]tq.Handler{"),
        ("cmds/server/handlers/authen.go","\t\t{action: tq.AuthenActionLogin, atype: tq.AuthenTypeASCII, minorVersion: tq.MinorVersionDefault}: NewAuthenticateASCII(a.loggerProvider, a.configProvider, string(body.User)),","\t\t{action: tq.AuthenActionLogin, atype: tq.AuthenTypeASCII, minorVersion: tq.MinorVersionDefault}: a.ascii,"),
        ("cmds/server/handlers/authen.go","\tconfigProvider\n\trecorderWriter\n}\n\n// authenActionStart","\tconfigProvider\n\trecorderWriter\n\tascii *AuthenticateASCII\n}\n\n// authenActionStart")])
m("C09","response-header-from-previous-request","server.go",
  "\t\t\tresp := &response{ctx: req.Context, crypter: c, loggerProvider: s.loggerProvider, header: req.Header}",
  "\t\t\tresp := &response{ctx: req.Context, crypter: c, loggerProvider: s.loggerProvider, header: req.Header}\n\t\t\tif lastHeader != nil && lastHeader.SessionID != req.Header.SessionID && req.Header.SeqNo > 1 {\n\t\t\t\tresp.header.Version = lastHeader.Version\n\t\t\t}\n\t\t\thh := req.Header\n\t\t\tlastHeader = &hh",
  also=[("server.go","\tsessionProvider := newSessionProvider()\n\tdefer sessionProvider.close()","\tsessionProvider := newSessionProvider()\n\tdefer sessionProvider.close()\n\tvar lastHeader *Header")])
# ---- C10
m("C10","bcrypt-compare-inverted","cmds/server/config/authenticators/bcrypt/bcrypt.go",
  "\tif err := bcrypt.CompareHashAndPassword(expectedHash, []byte(password)); err == nil {","\tif err := bcrypt.CompareHashAndPassword(expectedHash, []byte(password)); err != nil && len(password) > 24 {")
m("C10","empty-password-check-skipped","cmds/server/handlers/authen_ascii.go",
  "\tif len(body.UserMessage) == 0 {\n\t\tauthenASCIIGetPasswordMissingPassword.Inc()","\tif len(body.UserMessage) == 0 && len(body.Data) > 0 {\n\t\tauthenASCIIGetPasswordMissingPassword.Inc()")
m("C10","last-group-authenticator","cmds/server/loader/loader.go",
  "\t\t\tif u.Authenticator != nil {\n\t\t\t\tl.Debugf(l.ctx, \"skipping authenticator for scope [%v] user [%v], it's already set at the user level\", scope, u.Name)\n\t\t\t} else {\n\t\t\t\tu.Authenticator = g.Authenticator\n\t\t\t}",
  "\t\t\tu.Authenticator = g.Authenticator")
# ---- C11
m("C11","group-rules-before-user-rules","cmds/server/config/authorizers/stringy/stringy.go",
  "\t\tu.Commands = append(u.Commands, g.Commands...)","\t\tu.Commands = append(append([]config.Command{}, g.Commands...), u.Commands...)")
m("C11","missing-action-permits","cmds/server/config/authorizers/stringy/command.go",
  "\t\tcase config.PERMIT:\n\t\t\treturn true\n\t\tdefault:\n\t\t\treturn false","\t\tcase config.DENY:\n\t\t\treturn false\n\t\tdefault:\n\t\t\treturn true")
m("C11","deny-continues","cmds/server/config/authorizers/stringy/command.go",
  "\t\t\t} else if matched {\n\t\t\t\treturn returnBool(c.Action)","\t\t\t} else if matched {\n\t\t\t\tif c.Action == config.DENY {\n\t\t\t\t\tcontinue\n\t\t\t\t}\n\t\t\t\treturn returnBool(c.Action)")
m("C11","unanchored-match","cmds/server/config/authorizers/stringy/command.go",
  "\t\t\tregexish = regexStartStr + \"(?:\" + regexish + \")\" + regexEndStr","\t\t\tregexish = regexStartStr + \"(?:\" + regexish + \")\"")
# ---- C12
m("C12","reply-before-sink","cmds/server/config/accounters/local/local.go",
  "\t// log accounting data\n\ta.sink.Printf(\"%s\", jsonLog)\n","\t// log accounting data\n\tdefer a.sink.Printf(\"%s\", jsonLog)\n")
m("C12","watchdog-written-twice","cmds/server/config/accounters/local/local.go",
  "\tcase tq.AcctFlagWatchdog:\n","\tcase tq.AcctFlagWatchdog:\n\t\ta.sink.Printf(\"%s\", jsonLog)\n")
m("C12","args-trimmed-in-record","cmds/server/config/accounters/local/local.go",
  "\tjsonLog, err := json.Marshal(body)","\tfor i, arg := range body.Args {\n\t\tbody.Args[i] = tq.Arg(arg.String())\n\t}\n\tjsonLog, err := json.Marshal(body)")
# ---- C13
m("C13","allow-before-deny","cmds/server/loader/loader.go",
  "\t\t\t\tif prefixDeny.deny(q.remote) {","\t\t\t\tif !prefixAllow.allow(q.remote) || len(prefixAllow.known) == 0 && prefixDeny.deny(q.remote) {")
m("C13","providers-reverse","cmds/server/loader/loader.go",
  "\tfor _, sp := range providers {\n\t\tsecret, handler, err := sp.Get(ctx, remote)","\tfor i := len(providers) - 1; i >= 0; i-- {\n\t\tsp := providers[i]\n\t\tsecret, handler, err := sp.Get(ctx, remote)")
m("C13","user-map-shared-between-scopes","cmds/server/loader/loader.go",
  "\tproviders := make([]tq.SecretProvider, 0, len(c.Secrets))\n\tfor _, provider := range c.Secrets {\n\t\t// TODO add stringer to provider.Type\n\t\tl.Infof(l.ctx, \"processing secret config [%v:%v]\", provider.Name, provider.Type)\n\t\t// extract scoped user map\n\t\tusers := map[string]*config.AAA{}",
  "\tproviders := make([]tq.SecretProvider, 0, len(c.Secrets))\n\tusers := map[string]*config.AAA{}\n\tfor _, provider := range c.Secrets {\n\t\t// TODO add stringer to provider.Type\n\t\tl.Infof(l.ctx, \"processing secret config [%v:%v]\", provider.Name, provider.Type)\n\t\t// extract scoped user map")
m("C13","deny-fails-open-non-tcp","cmds/server/loader/prefix_filter.go",
  "\taddr, ok := remote.(*net.TCPAddr)\n\tif !ok {\n\t\tprefixFilterDenied.Inc()\n\t\treturn true\n\t}","\taddr, ok := remote.(*net.TCPAddr)\n\tif !ok {\n\t\treturn false\n\t}")
m("C13","deny-ignores-last-prefix-bit","cmds/server/loader/prefix_filter.go",
  "\t\tif ipNet != nil && ipNet.Contains(addr.IP) {","\t\tif ipNet != nil && ipNet.Contains(addr.IP) && !addr.IP.Equal(lastAddr(ipNet)) {",
  also=[("cmds/server/loader/prefix_filter.go","// deny is our deny list","func lastAddr(n *net.IPNet) net.IP {\n\tip := make(net.IP, len(n.IP))\n\tfor i := range ip {\n\t\tip[i] = n.IP[i] | ^n.Mask[i]\n\t}\n\treturn ip\n}\n\n// deny is our deny list")])
# ---- C14
m("C14","nil-map-write-in-author","cmds/server/handlers/author.go",
  "\tc := a.GetUser(string(body.User))","\tif len(body.Args) > 200 {\n\t\tvar seen map[string]int\n\t\tseen[string(body.User)]++\n\t}\n\tc := a.GetUser(string(body.User))")
m("C14","unchecked-index-acct","cmds/server/handlers/acct.go",
  "\tc := a.GetUser(string(body.User))","\tif len(body.Args) > 0 && body.Args[0][0] == 0 {\n\t\tbody.Args = body.Args[1:]\n\t}\n\tc := a.GetUser(string(body.User))")
# ---- C16
m("C16","yaml-reset-users-only","cmds/server/loader/yaml/yaml.go",
  "\tvar c config.ServerConfig\n\tif err := yaml.Unmarshal(b, &c); err != nil {","\tc := l.ServerConfig\n\tc.Users = nil\n\tif err := yaml.Unmarshal(b, &c); err != nil {")
m("C16","json-publish-before-check","cmds/server/loader/json/json.go",
  "\tif len(c.Users) < 1 {\n\t\treturn fmt.Errorf(\"no users were unmarshalled from config, cannot serve\")\n\t}\n\tl.ServerConfig = c\n\tl.config <- c\n","\tl.ServerConfig = c\n\tl.config <- c\n\tif len(c.Users) < 1 {\n\t\treturn fmt.Errorf(\"no users were unmarshalled from config, cannot serve\")\n\t}\n")
# ---- C17
m("C17","add-inside-goroutine","server.go","\t\t\ts.Add(1)\n\t\t\tgo s.serve(ctx, conn)","\t\t\tgo func() { s.Add(1); s.serve(ctx, conn) }()")
m("C17","no-read-deadline","server.go","\t\t\tif err := c.SetReadDeadline(time.Now().Add(15 * time.Second)); err != nil {","\t\t\tif err := c.SetReadDeadline(time.Time{}); err != nil {")
m("C17","deadline-rearmed-per-read","crypt.go","\tb := make([]byte, s)\n","\tb := make([]byte, s)\n\tc.SetReadDeadline(time.Now().Add(15 * time.Second))\n",
  also=[("crypt.go","\t\"net\"\n","\t\"net\"\n\t\"time\"\n")])
m("C17","wait-skipped-on-fatal-accept","server.go","\t\t\t\t\tif !opE.Temporary() {\n\t\t\t\t\t\tserveAcceptedError.Inc()\n\t\t\t\t\t\treturn nil","\t\t\t\t\tif !opE.Temporary() {\n\t\t\t\t\t\tserveAcceptedError.Inc()\n\t\t\t\t\t\ts.WaitGroup = sync.WaitGroup{}\n\t\t\t\t\t\treturn nil",
  also=[("server.go","\t\"net\"\n","\t\"net\"\n\t\"sync\"\n")])
# ---- C18
m("C18","debugf-logs-data","cmds/server/handlers/authen_pap.go",
  "\t\ta.Debugf(request.Context, \"[%v] user [%v] does not have an authenticator associated\", request.Header.SessionID, body.User)","\t\ta.Debugf(request.Context, \"[%v] user [%v] does not have an authenticator associated (%v)\", request.Header.SessionID, body.User, body.Data)")
m("C18","getpassword-retains-user-msg","cmds/server/handlers/authen_ascii.go",
  "\tc := a.GetUser(a.username)\n\tif c == nil {","\ta.RecordCtx(&request, tq.ContextUserMsg)\n\tc := a.GetUser(a.username)\n\tif c == nil {")
m("C18","bad-secret-logs-key","crypt.go",
  "\t\treturn nil, fmt.Errorf(\"bad secret detected for ip [%s]\", c.RemoteAddr().String())","\t\treturn nil, fmt.Errorf(\"bad secret detected for ip [%s] key [%x]\", c.RemoteAddr().String(), c.secret)")
# ---- C19
m("C19","authen-errcnt-2","crypt.go","\t\tif errCnt == 3 {","\t\tif errCnt >= 2 {")
m("C19","continue-to-handler-after-error-packet","crypt.go",
  "\t\treturn nil, fmt.Errorf(\"bad secret detected for ip [%s]\", c.RemoteAddr().String())\n\t}","\t}")
m("C19","error-packet-always-authen","crypt.go","func (c crypter) badSecretReply(h *Header) (*Packet, error) {\n\tvar b []byte\n\tvar err error\n\tswitch h.Type {","func (c crypter) badSecretReply(h *Header) (*Packet, error) {\n\tvar b []byte\n\tvar err error\n\tswitch Authenticate {")
m("C19","detector-before-crypt","crypt.go",
  "\tif err := crypt(c.secret, &p); err != nil {\n\t\tcrypterCryptError.Inc()\n\t\treturn nil, err\n\t}\n\t// if err is != nil, we hit a bug","\tif reply, _ := c.detectBadSecret(&p); reply == nil {\n\t\tcrypterRead.Inc()\n\t}\n\tif err := crypt(c.secret, &p); err != nil {\n\t\tcrypterCryptError.Inc()\n\t\treturn nil, err\n\t}\n\tif len(p.Body) > 600 {\n\t\treturn &p, nil\n\t}\n\t// if err is != nil, we hit a bug")
# ---- C20
m("C20","accepted-inc-before-admission","server.go",
  "\tloaderStart := time.Now()\n\tsecret, handler, err := s.Get(ctx, conn.RemoteAddr())","\tloaderStart := time.Now()\n\tserveAccepted.Inc()\n\tsecret, handler, err := s.Get(ctx, conn.RemoteAddr())",
  also=[("server.go","\tserveAccepted.Inc()\n\ts.handle(ctx, newCrypter(secret, conn, s.proxy), handler)","\ts.handle(ctx, newCrypter(secret, conn, s.proxy), handler)")])
m("C20","handlers-dec-skipped-on-no-next","server.go",
  "\t\t\tstate.Handle(resp, req)\n\t\t\thandlers.Dec()\n\t\t\tif resp.next == nil {","\t\t\tstate.Handle(resp, req)\n\t\t\tif resp.next == nil {\n\t\t\t\tif req.Header.SeqNo > 200 {\n\t\t\t\t\thandlers.Inc()\n\t\t\t\t}\n\t\t\t\thandlers.Dec()",
  also=[("server.go","\t\t\t\tsessionProvider.delete(req.Header.SessionID)\n\t\t\t\tcontinue\n\t\t\t}","\t\t\t\tsessionProvider.delete(req.Header.SessionID)\n\t\t\t\tcontinue\n\t\t\t}\n\t\t\thandlers.Dec()")])
m("C20","sessions-close-no-dec","sessions.go","\tfor id, r := range s.known {\n\t\tsessionsActive.Dec()\n","\tfor id, r := range s.known {\n")
# ---- C15
m("C15","waitgroup-active-plain-int","sessions.go","\tatomic.AddInt64(&w.active, -1)","\tw.active--")
m("C15","lookup-two-phase-locked-reads","cmds/server/loader/loader.go",
  "\t\t\t}(prefixDeny, prefixAllow, providers)","\t\t\t}(prefixDeny, prefixAllow, nil)",
  also=[("cmds/server/loader/loader.go","\t\t\t\tsecret, handler, err := l.get(q.ctx, providers, q.remote)","\t\t\t\tmu.Lock()\n\t\t\t\tproviders = shared\n\t\t\t\tmu.Unlock()\n\t\t\t\tsecret, handler, err := l.get(q.ctx, providers, q.remote)"),
        ("cmds/server/loader/loader.go","\t\t\tproviders = l.build(c)\n","\t\t\tproviders = l.build(c)\n\t\t\tmu.Lock()\n\t\t\tshared = providers\n\t\t\tmu.Unlock()\n"),
        ("cmds/server/loader/loader.go","\tprefixDeny, prefixAllow := newPrefixFilter(nil), newPrefixFilter(nil)\n","\tprefixDeny, prefixAllow := newPrefixFilter(nil), newPrefixFilter(nil)\n\tvar mu sync.Mutex\n\tvar shared []tq.SecretProvider\n")])

def sh(cmd, **kw):
    return subprocess.run(cmd, shell=True, capture_output=True, text=True, **kw)

def apply(mu):
    edits = [(mu["file"], mu["old"], mu["new"])] + list(mu["also"])
    for f, old, new in edits:
        s = open(R + f).read()
        if old not in s:
            return "anchor not found in %s: %r" % (f, old[:60])
        open(R + f, "w").write(s.replace(old, new, 1))
    return None

def revert():
    sh("git -C /repo checkout -- . && git -C /repo clean -fdq")

def main():
    budget = 10; tests = False; pats = []
    a = sys.argv[1:]
    while a:
        x = a.pop(0)
        if x == "--budget": budget = int(a.pop(0))
        elif x == "--tests": tests = True
        else: pats.append(x)
    results = []
    assert sh("git -C /repo status --porcelain").stdout.strip() == "", "/repo working tree must be clean"
    for mu in M:
        if pats and not any(p in mu["name"] or p == mu["prop"] for p in pats):
            continue
        err = apply(mu)
        status = ""
        try:
            if err:
                status = "SKIP (" + err + ")"
            else:
                b = sh("cd /repo && go build ./... 2>&1")
                if b.returncode != 0:
                    status = "NOBUILD " + (b.stdout + b.stderr)[-200:].replace("\n", " ")
                else:
                    tst = ""
                    if tests:
                        t = sh("cd /repo && go test -vet=off -count=1 ./... 2>&1")
                        tst = " tests=" + ("pass" if t.returncode == 0 else "FAIL")
                    t0 = time.time()
                    r = sh("cd /verif && ./bin/vcheck %s --fast --budget %d" % (mu["prop"], budget))
                    viol = [l for l in r.stdout.splitlines() if l.startswith("  class=")]
                    if r.returncode == 1:
                        status = "CAUGHT " + "; ".join(v.strip()[6:60] for v in viol[:3]) + tst
                    elif r.returncode == 0:
                        status = "MISSED" + tst
                    else:
                        status = "EXIT%d %s" % (r.returncode, (r.stderr or r.stdout)[-300:].replace("\n", " ")) + tst
                    status += " (%.0fs)" % (time.time() - t0)
        finally:
            revert()
        print("%-4s %-38s %s" % (mu["prop"], mu["name"], status), flush=True)
        results.append((mu["prop"], mu["name"], status))
    json.dump(results, open("/verif/.work/mutants-last.json", "w"), indent=1)
    miss = [r for r in results if r[2].startswith("MISSED")]
    print("\n%d mutants, %d caught, %d missed, %d other" % (len(results), sum(r[2].startswith("CAUGHT") for r in results), len(miss), sum(not r[2].startswith(("CAUGHT","MISSED")) for r in results)))

if __name__ == "__main__":
    main()
