#!/usr/bin/env python3
"""Seeded-change bookkeeping.
  seeded.py import <src-out-dir> <id> <property> <demo-dir-in-repo> <run-pattern> [--race]
  seeded.py verify <id>      # in a scratch worktree of /repo: build, full suite with the change, demo with and without
  seeded.py eval <id> [budget] [props...]   # apply to /repo, run the checks (fast mode), undo; records caught_by in meta.json
"""
import sys, os, json, subprocess, shutil, tempfile, time
ROOT = "/verif/seeded"
ENV = dict(os.environ, GOFLAGS="-mod=mod", GOPROXY="off", GOSUMDB="off", GOTOOLCHAIN="local")

def sh(cmd, cwd=None):
    return subprocess.run(cmd, shell=True, cwd=cwd, env=ENV, capture_output=True, text=True)

def meta_path(i): return os.path.join(ROOT, i, "meta.json")
def load(i): return json.load(open(meta_path(i)))
def save(i, m): json.dump(m, open(meta_path(i), "w"), indent=1)

def cmd_import(src, i, prop, demo_dir, pattern, race=False):
    d = os.path.join(ROOT, i)
    os.makedirs(os.path.join(d, "demo"), exist_ok=True)
    shutil.copy(os.path.join(src, "patch.diff"), os.path.join(d, "patch.diff"))
    for f in os.listdir(os.path.join(src, "demo")):
        shutil.copy(os.path.join(src, "demo", f), os.path.join(d, "demo", f))
    notes = open(os.path.join(src, "notes.md")).read() if os.path.exists(os.path.join(src, "notes.md")) else ""
    shutil.copy(os.path.join(src, "notes.md"), os.path.join(d, "notes.md")) if notes else None
    m = {"id": i, "property": prop, "origin": "independent sub-agent given only the property text and a scratch worktree",
         "demo_dir": demo_dir, "demo_run": pattern, "demo_race": race,
         "needs_to_manifest": "", "what_i_ran": [], "verified": None, "caught_by": None}
    save(i, m)
    print("imported", i)

def cmd_verify(i):
    m = load(i); d = os.path.join(ROOT, i)
    wt = tempfile.mkdtemp(prefix="sv-", dir="/tmp")
    os.rmdir(wt)
    r = sh(f"git -C /repo worktree add -q --detach {wt} HEAD")
    assert r.returncode == 0, r.stderr
    log = []
    try:
        demos = [f for f in os.listdir(os.path.join(d, "demo")) if f.endswith(".go")]
        def copy_demo():
            for f in demos: shutil.copy(os.path.join(d, "demo", f), os.path.join(wt, m["demo_dir"], f))
        def rm_demo():
            for f in demos: os.remove(os.path.join(wt, m["demo_dir"], f))
        race = "-race " if m.get("demo_race") else ""
        run = f"go test -vet=off -count=1 {race}-run '{m['demo_run']}' ./{m['demo_dir']}/"
        # without the change: demo passes
        copy_demo(); r0 = sh(run, cwd=wt); rm_demo()
        log.append(("demo without change", r0.returncode == 0))
        # with the change
        a = sh(f"git apply {d}/patch.diff", cwd=wt); log.append(("patch applies", a.returncode == 0))
        b = sh("go build ./...", cwd=wt); log.append(("builds", b.returncode == 0))
        t = sh("go test -vet=off -count=1 ./...", cwd=wt); log.append(("existing suite passes with change", t.returncode == 0))
        copy_demo(); r1 = sh(run, cwd=wt); rm_demo()
        log.append(("demo fails with change", r1.returncode != 0))
        ok = all(v for _, v in log)
        m["verified"] = ok
        m["what_i_ran"] = [f"{k}: {'yes' if v else 'NO'}" for k, v in log] + [f"demo command: {run}", "existing suite: go test -vet=off -count=1 ./... (default toolchain)"]
        save(i, m)
        print(i, "VERIFIED" if ok else "NOT VERIFIED", log)
        if not ok:
            print((r0.stdout + r0.stderr)[-600:]); print((t.stdout + t.stderr)[-600:]); print((r1.stdout+r1.stderr)[-300:])
    finally:
        sh(f"git -C /repo worktree remove --force {wt}")

def cmd_eval(i, budget=10, props=None):
    m = load(i); d = os.path.join(ROOT, i)
    props = props or [m["property"]]
    assert sh("git -C /repo status --porcelain").stdout.strip() == "", "/repo must be clean"
    a = sh(f"git -C /repo apply {d}/patch.diff"); assert a.returncode == 0, a.stderr
    res = {}
    try:
        for p in props:
            r = sh(f"./bin/vcheck {p} --fast --budget {budget}", cwd="/verif")
            classes = [l.strip()[6:] for l in r.stdout.splitlines() if l.startswith("  class=")]
            res[p] = {"exit": r.returncode, "classes": [c.split(" runs=")[0] for c in classes][:6]}
            if r.returncode == 2: res[p]["stderr"] = (r.stderr or r.stdout)[-300:]
            print(i, p, "exit", r.returncode, res[p]["classes"][:3], flush=True)
    finally:
        sh("git -C /repo checkout -- . && git -C /repo clean -fdq")
    m["caught_by"] = {p: v for p, v in res.items()}
    m["caught"] = any(v["exit"] == 1 for v in res.values())
    m["evaluated_at_verif_commit"] = sh("git -C /verif log --format=%h -1").stdout.strip()
    save(i, m)

if __name__ == "__main__":
    c = sys.argv[1]
    if c == "import":
        cmd_import(sys.argv[2], sys.argv[3], sys.argv[4], sys.argv[5], sys.argv[6], "--race" in sys.argv)
    elif c == "verify":
        cmd_verify(sys.argv[2])
    elif c == "eval":
        b = int(sys.argv[3]) if len(sys.argv) > 3 else 10
        cmd_eval(sys.argv[2], b, sys.argv[4:] or None)
