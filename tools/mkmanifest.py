#!/usr/bin/env python3
"""Writes /verif/MANIFEST.json from the table below (single source of truth)."""
import json, os, subprocess
ROOT = os.path.dirname(os.path.dirname(os.path.abspath(__file__)))
ALL = ["C%02d" % i for i in range(1, 21)]

SIM = "seeded deterministic simulation (testing/synctest bubble, tape-driven scheduler, fault injection)"
CHECKS = {
 "C05": dict(
   tech=SIM + "; independent RFC 8907 peer; history oracle over probe-handler invocations",
   text="Exploration: seeded search over packet sequences x stream segmentations x truncation/stall faults; the real Server/crypter reads a simulated TCP stream whose every read boundary is decided by the tape; the oracle compares what the probe handler was given with what the independent peer sent, and checks refusal timing of oversize headers step by step. Further families: scripted pacing and coalescing on the simulated clock (a packet must get the server's full per-packet waiting time however it was coalesced with its predecessor), proxy mode (an HA-proxy line before every packet), transports that return the last bytes together with io.EOF, and the library client as receiver of pipelined replies (SendOnly, then Send).",
   note="Trusts the simulated transport to behave like a TCP byte stream (arbitrary read boundaries, EOF, reset, deadlines); bodies and segmentations are sampled, not enumerated.",
   ref="DESIGN.md 5/C05"),
 "C06": dict(
   tech=SIM + "; raw-byte tap oracle on reply headers, lengths and obfuscation",
   text="Exploration: seeded multi-packet, multi-session exchanges up to sequence 255 with every flag octet and both minor versions against scripted handlers; a tap parses the server's raw output with the independent codec and checks the mirror rules, the length field and the obfuscation of every reply.",
   note="Value and history space sampled; handlers are scripted probes (reference handlers are covered by C07/C09).",
   ref="DESIGN.md 5/C06"),
 "C08": dict(
   tech=SIM + "; executable session-table reference model (RFC 8907 sequence rules) checked per packet",
   text="Exploration, model-based: seeded histories of (session, sequence number, kind) including replays, even numbers, decreases, jumps and the top of the sequence space; every dispatch/termination decision of the real session table is compared with a small executable model.",
   note="Histories sampled per seed; RESTART together with a registered continuation is an ambiguity band and is not generated.",
   ref="DESIGN.md 5/C08"),
}

REF = SIM + "; real loader+server+handlers over simulated seams; independent RFC peer and executable reference model of the documented AAA/admission semantics as oracle"
CHECKS.update({
 "C07": dict(tech=REF + "; model-free history clause: exactly one write per handler invocation",
   text="Exploration: the whole reference server (real YAML/JSON loader, prefix provider, Start router, ASCII/PAP, stringy authorizer, log accounter) runs in the bubble under generated configurations; seeded request histories over all AAA paths including error paths and rejection workloads; the history oracle counts packets written inside every handler invocation and checks that rejected packets reach no handler and close the connection.",
   note="Configurations, request sequences and schedules are sampled. Keychain-error path depends on the bcrypt keychain seam.", ref="DESIGN.md 5/C07"),
 "C10": dict(tech=REF,
   text="Exploration against an executable reference model: generated user/group/scope/authenticator configurations are loaded by the real loader; model clients run every START variant, ASCII and PAP logins, aborts, stray CONTINUEs and mid-exchange STARTs interleaved on shared connections; every reply status is compared with the model (soundness on every run, completeness in fault-free runs).",
   note="Out-of-place or malformed packets fall into enumerated ambiguity bands where only 'never PASS' is asserted.", ref="DESIGN.md 5/C10"),
 "C11": dict(tech=REF + "; whole-string regexp semantics restated with Go's regexp on \\A(?:p)\\z",
   text="Exploration against an independent policy evaluator: generated ordered permit/deny rules with alternations, partial anchors, escaped metacharacters, invalid syntax and whitespace, user/group layering and services with match conditions; requests with arbitrary argument lists; outcome observed end to end through loader, server and authorizer.",
   note="Schedule search contributes nothing here; the deciding element is the independent evaluator plus seeded sampling of policies and requests. Invalid patterns and ADD/REPL-by-request-only are enumerated bands.", ref="DESIGN.md 5/C11"),
 "C12": dict(tech=REF + "; simulated accounting sink rendering Printf exactly; record decoded independently and compared byte for byte; syslog-backed accounter driven sequentially against a scripted syslog daemon on a unix datagram socket that goes away and comes back",
   text="Exploration: accounting requests with every flag combination and text over all 128 ASCII codes; the oracle requires, for every SUCCESS, exactly one sink record written before the reply that decodes to exactly the request. A second family hands generated requests to the real syslog-backed accounter (real log/syslog.Writer) while the daemon is made unreachable and reachable again: one reply per request, SUCCESS only with exactly one matching record at the daemon before the reply.",
   note="The file sink interface cannot report disk faults; loss is modelled as connection faults around the sink call. The syslog family uses a real unix datagram socket in a private temporary directory (log/syslog.Writer offers no seam); it is sequential and replays exactly.", ref="DESIGN.md 5/C12"),
 "C13": dict(tech=REF + "; simulated listener hands out connections with arbitrary remote addresses; independent admission evaluator; concurrent lookups on a yield-instrumented copy (go/ast yields in loader, prefix filter and prefix provider) checked for linearizability against the evaluator with porcupine",
   text="Exploration: generated documents with overlapping prefixes, deny/allow lists, IPv4/IPv6/IPv4-mapped/non-TCP remote addresses at prefix boundaries; the oracle checks refusal (zero bytes, no handler) or the bound scope key and user set against the evaluator. A second family admits several connections at once through freshly built filters and providers (start-up, reload) with the scheduler parking lookups between any two statements; every outcome must be explained by one whole configuration.",
   note="IPv4-mapped addresses against short IPv6 prefixes and scopes without loadable users are enumerated bands.", ref="DESIGN.md 5/C13"),
 "C18": dict(tech=REF + "; simulated logger records every call; token scan",
   text="Exploration: unique 20-character passwords and shared secrets; all authentication histories including error, abort and unrecognised paths; nothing the server hands to its logger (messages, records minus obscured keys, retained context fields) may contain a token in raw, hex, base64 or byte-list form.",
   note="Only what reaches the logger interfaces is observed; the logger retains context fields as the reference implementation's commented-out code would.", ref="DESIGN.md 5/C18"),
 "C19": dict(tech=REF + "; independent classifier of the length-consistency rule",
   text="Exploration: clients holding a different secret than the server (and the converse: same secret, or the clear flag); bodies classified by the independent model as mismatch / well-formed / grey; mismatch must yield one error packet of the right type and a closed connection with no handler, well-formed must be dispatched.",
   note="Grey-zone bodies are not asserted beyond C07/C14 invariants.", ref="DESIGN.md 5/C19"),
})

CHECKS.update({
 "C14": dict(tech=REF + "; hostile byte streams next to control clients; panic capture in wrapped handlers and worker-death attribution",
   text="Exploration: hostile clients (random bytes, mutated and truncated packets, oversize announcements, every body kind in every handler state, logins of users with oddly configured authenticators, key mismatches) run next to control clients that perform a known-good login, authorization and accounting before and after; a panic in any handler, the death of the worker process, or any deviation on a control connection is a violation.",
   note="Process death outside handlers is detected by worker death (the plan is written to disk before execution).", ref="DESIGN.md 5/C14"),
 "C17": dict(tech=SIM + "; tape-placed cancellation / accept faults / listener close relative to accepts, reads, parked handlers and blocked writes; serial and batch steps; fake-clock advances around every armed deadline; safety and bounded-liveness history oracle",
   text="Exploration of schedules: 0..6 connections idle, mid-header, mid-body, with handlers parked at seams or writes blocked; the tape places cancellation, accept errors and listener close anywhere, including in the same scheduler step as an accept or a delivery (batch mode); the clock is advanced to just before/at/after each deadline. Oracle: at 'Serve returned' listener and all accepted connections are closed, all handlers ended, nothing happens afterwards; Serve returns within a bounded number of deadline advances once nothing is parked; every read is preceded by a finite future deadline that is not extended inside a packet, and an expired deadline closes the connection.",
   note="Liveness is bounded (12 deadline advances after the last fault); schedules sampled.", ref="DESIGN.md 5/C17"),
 "C20": dict(tech=SIM + "; prometheus gauges read at every quiescent scheduler step and compared with counters derived from the history",
   text="Exploration: connection histories mixing completed and abandoned sessions, refused admissions, sequence violations (even first number), key mismatches, resets and shutdown with open connections; the four gauges are read at every quiescent step: never below rest, equal to the history-derived model (handlers, sessions), back at rest once everything closed. In part of the runs a second Server value of the same process holds idle connections open during the burst.",
   note="Gauges are process-global: values are taken relative to the run's baseline read at rest (and, with a sibling server, relative to the value read once its connections are open).", ref="DESIGN.md 5/C20"),
})

PEER = SIM + "; independent simulated RFC 8907 peer on both sides (model client vs real server, real tacquito.Client vs model server)"
CHECKS.update({
 "C01": dict(tech=PEER + "; byte-for-byte comparison of library encodings/decodings with the independent layout",
   text="Exploration by an independent peer: every header and body kind is put through the library encoder (client requests, server replies) and the library decoder (handler-side request decode, client-side reply decode) with an independent RFC 8907 implementation on the other end of the simulated connection, so a mistake that is symmetric inside the library cannot cancel out.",
   note="The property has no schedule in it: segmentation and delays are on but do not decide; the deciding element is the independent peer; values are sampled by seeded generation, not enumerated.", ref="DESIGN.md 5/C01"),
 "C02": dict(tech=PEER + "; representability decided by the model; passive tap runs decode-encode-decode on every observed body",
   text="Exploration: values on both sides of every wire-width boundary (255/256, 65535/65536, 255/256 arguments, 1-byte arguments, non-ASCII text, unknown enum members) are sent by the real client and replied by the real server; either the encoder errs and nothing reaches the wire, or the bytes decode (independently) to the identical value. The tap additionally checks decode->encode->decode on every body seen on the wire, damaged ones included.",
   note="Input property: schedule search does not decide. Decode-first clause covers byte strings that occur on the simulated wire (incl. under faults), not arbitrary byte strings.", ref="DESIGN.md 5/C02"),
 "C03": dict(tech=PEER + "; independent MD5 pad (crypto/md5) applied to the library's own cleartext in both directions",
   text="Exploration: secrets of 0..64 arbitrary octets, session ids incl. 0 and 2^32-1, both versions, sequence numbers up to 255, body lengths around every multiple of 16 and the 65536 limit; the oracle checks wire = cleartext XOR RFC pad against the cleartext the sending library produced, that the receiver recovers it, that header bytes and length are untouched and that the clear flag leaves the body verbatim.",
   note="Input property; values sampled.", ref="DESIGN.md 5/C03"),
 "C04": dict(tech=SIM + "; transport faults as inputs (every truncation = connection cut, every corruption = bit flipped in transit); passive tap hands observed bytes to all public decoders with poisoned spare capacity; per-step allocation measurement",
   text="Exploration/fault injection: valid packet sequences are truncated at arbitrary bytes, bit-flipped in header, length and body, given inconsistent length octets and oversize announcements, and fed to the real server (probe and reference handlers) and to the real client's read path; a tap passes every observed prefix, packet and deobfuscated body to Header/Packet/seven body decoders and Request.Fields under recover with poisoned capacity, checking containment in the input, validity of accepted values and allocation per step.",
   note="Covers byte strings reachable on the simulated wire under the injected faults, not all byte strings; allocation bound is measured with runtime.MemStats.", ref="DESIGN.md 5/C04"),
 "C09": dict(tech=REF + "; solo-run oracle: each session's transcript in the multiplexed/concurrent run is compared byte for byte with its transcript on a fresh server that sees only that session",
   text="Exploration of interleavings: 2..8 session scripts per connection (ASCII at different stages, PAP, aborts, authorizations, accounting), up to 4 connections with equal session ids, packet interleavings chosen by the seed and delivery/handler overlap by the tape (batch steps, handlers parked at logger/keychain/sink seams); each session's raw reply transcript must equal the transcript it gets when alone.",
   note="Interleavings sampled; the solo run is the real server too (cross-checked against the reference model by the C07/C10 oracles).", ref="DESIGN.md 5/C09"),
})

CHECKS.update({
 "C15": dict(tech=SIM + "; Go race detector as invariant monitor over batch steps with Gosched yield seams; yield-instrumented loader (go/ast) + porcupine linearizability check of lookups vs publications; snapshot comparison of published configurations",
   text="Three sub-checks. (a) The simulator is built with -race; batch steps make conflicting operations co-runnable with no harness-made ordering (accept vs connection exit, lookup vs publish, same-user authorizations on several connections, shutdown vs accept) and armed seams yield the processor inside handlers so that one connection overtakes another. (b) A scratch copy of /repo gets a parking point before every statement of the loader (cmd/yieldify); lookups and publications of configuration versions, built so that any mixture of two versions gives an outcome no single version gives, are recorded with event sequence numbers and checked with porcupine against a single-register model. (c) Every published configuration is snapshotted and compared after further loads. (d) The file watcher's real watch loop (verif hook) under the race detector with publications nobody consumes at once, and no harness-made ordering between two reloads.",
   note="The race detector reports only races between operations the batches make co-runnable, and its report (unlike the schedule) does not replay deterministically: race replays are attempted up to 8 times. Linearizability checks are capped at 40 operations / 20 s; Unknown is counted as inconclusive.", ref="DESIGN.md 5/C15"),
 "C16": dict(tech=SIM + "; long-lived loader vs fresh loader on the same bytes after every step of a document history with torn/short/stale-tail/empty/garbage file faults; end-to-end reloads through the simulated server",
   text="Exploration of histories with disk faults: one YAML or JSON loader instance receives generated document histories via Unmarshal and via Load of a file (documents dropping optional keys, shrinking and reordering lists, removing per-user items, unparsable or failing the minimum-content check, torn writes); after each step a fresh loader gets the same bytes; both must fail or publish deeply equal values, and earlier published values must still equal their snapshots. End to end: the reference server reloads documents while clients come and go, and connections admitted after a reload are judged by the reference model on the new document. Watcher family: the reference server's file watcher runs its real watch loop (started through the verif-tagged StartWithEvents hook) over real files in a private directory; the simulator delivers the change events (configured file, siblings whose names contain its name, swap files, lost events) and advances the simulated clock past the loop's tick; whatever is published must equal a fresh loader's publication for the configured file.",
   note="The operating system's inotify source is replaced by injected events (hook in /repo, build tag verif); the watch loop, its ticker and the loaders are the real code.", ref="DESIGN.md 5/C16"),
})

def main():
    checks = []
    for pid in ALL:
        if pid not in CHECKS:
            continue
        c = CHECKS[pid]
        checks.append({
            "property_id": pid,
            "quick_cmd": "./bin/vcheck %s --tier quick" % pid,
            "thorough_cmd": "./bin/vcheck %s --tier thorough" % pid,
            "evidence_file": "/verif/evidence/%s.json" % pid,
            "replay_cmd_template": "./bin/vcheck replay {path}",
            "engine": "tqsim",
            "level_claimed": {"category": "exploration", "text": c["text"], "design_ref": c["ref"]},
            "level_note": c["note"],
            "technique": c["tech"],
        })
    na = [{"property_id": p, "reason": "check not built yet in this round (planned: DESIGN.md section 5); not a claim of inapplicability"} for p in ALL if p not in CHECKS]
    try:
        hooks = subprocess.check_output(["git", "-C", "/repo", "log", "--format=%H", "--grep=^verif hook"], text=True).split()
    except Exception:
        hooks = []
    m = {
        "version": 1,
        "setup_cmd": "./setup.sh",
        "hooks": {
            "guard": "verif",
            "enable": "go build tag: the worker is built with `go1.26.8 test -c -tags verif` against /repo through a replace directive (sim/go.mod)",
            "baseline_off_cmd": "cd /repo && go test -vet=off -count=1 ./...",
            "source_commits": hooks,
            "add_only": True,
        },
        "engines": [{
            "name": "tqsim",
            "path": "/verif/sim",
            "serves_properties": [c["property_id"] for c in checks],
            "kind_free_text": "single-process deterministic simulator: real tacquito code inside a testing/synctest bubble over a simulated listener/connections/clock/logger/sink/keychain/config source; seeded tape decides every interleaving, segmentation, delay and fault; explicit replayable plans, delta-debugging shrinker, known-findings list",
        }],
        "checks": checks,
        "not_applicable": na,
        "notes": "See DESIGN.md. Exit codes: 0 held, 1 VIOLATION (with replay file), 2 harness/build trouble. VERIF_SEED seeds every run; VERIF_TIER selects the tier when --tier is absent.",
    }
    json.dump(m, open(os.path.join(ROOT, "MANIFEST.json"), "w"), indent=1)
    print("wrote MANIFEST.json with", len(checks), "checks,", len(na), "not_applicable")

if __name__ == "__main__":
    main()
