package plan

import (
	"fmt"
	"net"

	"tqsim/model"
)

// DocOpts steers the document generator.
type DocOpts struct {
	Scopes       int  // number of secret configurations (0 = random 1..3)
	Filters      bool // may add deny/allow lists
	Overlap      bool // scopes may overlap
	Keychain     bool // may create users whose authenticator has no inline hash
	OddAuth      bool // may create authenticators with odd/missing options
	OddScopes    bool // may name handler / provider types nobody registered (the builder skips such scopes)
	EmptyPw      bool // may give a user the hash of the empty password as credential
	DupUsers     bool // may list the same user name twice, with different credentials, for disjoint scopes
	Span         bool // the deployment registers the SPAN handler (mirror host unreachable: requests fall through to START)
	V6           bool // may use IPv6 prefixes
	InvalidRegex bool
	NoSpaces     bool
}

var cmdNames = []string{"show", "configure", "ping", "*", "clear", "show ip", "show"}
var cmdPatterns = []string{
	"terminal", "terminal|exclusive", "^terminal|exclusive$", "int.*", `^interface\s+\S+$`, `run\$`, "a.b",
	"batch", "^system$", "system", "^sys", "tem$", ".*", "ip route .*", `\.`, "x+", "[a-c]+",
}
var cmdArgWords = []string{"terminal", "exclusive", "terminal ; reload", "run$", "run$ extra", "axb", "a.b", "batch", "system", "system ; id",
	"sys", "tem", "ip", "route", "ip route", "ip route vrf", "interface  eth0", "int", "interfaces", "ip route 0.0.0.0", "x", "xxx", "abc", "abcd", ".", "", "<cr>"}

var svcNames = []string{"shell", "ppp", "junos-exec", "cisco-av-pair", "exec"}

func (r *Rand) token(prefix string) string { return prefix + r.Alnum(19) }

// GenDoc draws a configuration document.
func GenDoc(r *Rand, o DocOpts) model.Doc {
	var d model.Doc
	d.XSpan = o.Span && o.OddScopes
	ns := o.Scopes
	if ns == 0 {
		ns = 1 + r.Intn(3)
	}
	for i := 0; i < ns; i++ {
		s := model.SecretCfg{Name: fmt.Sprintf("sc%d", i), Secret: model.KeychainCfg{Group: "tacquito", Key: r.token("K")},
			Handler: model.HandlerCfg{Type: 1}, Type: 1}
		if o.OddScopes && r.Chance(12) {
			if r.Chance(70) {
				s.Handler.Type = 2 // SPAN: a valid handler type the reference server does not register
				if r.Chance(75) {
					// nothing listens there: the dial is refused at once
					s.Handler.Options = map[string]string{"destination": "[::1]:1"}
				}
			} else {
				s.Type = 2 // DNS: a valid provider type the reference server does not register
			}
		}
		np := 1 + r.Intn(2)
		for k := 0; k < np; k++ {
			var p string
			switch {
			case o.V6 && r.Chance(30):
				p = fmt.Sprintf("2001:db8:%x::/48", i*4+k)
			case o.Overlap && i > 0 && r.Chance(50):
				// more specific than (inside) scope 0's first prefix
				p = fmt.Sprintf("10.0.%d.0/24", i)
			case o.Overlap && r.Chance(20):
				p = "10.0.0.0/8"
			default:
				p = fmt.Sprintf("10.%d.0.0/16", i*4+k)
			}
			s.Prefixes = append(s.Prefixes, p)
		}
		d.Secrets = append(d.Secrets, s)
	}
	nu := 1 + r.Intn(5)
	pwBase := r.Intn(len(PwPool))
	for i := 0; i < nu; i++ {
		u := model.UserCfg{Name: fmt.Sprintf("u%d%s", i, r.Alnum(3))}
		if r.Chance(6) {
			// very long user names are legal (one length octet: up to 255)
			u.Name = fmt.Sprintf("u%d%s", i, r.Alnum(PickOf(r, 253, 252, 129, 130, 200)))
		}
		// scopes: usually one or two, sometimes none
		for si := 0; si < ns; si++ {
			if r.Chance(60) || (si == 0 && i == 0) {
				u.Scopes = append(u.Scopes, d.Secrets[si].Name)
			}
		}
		pw := PwPool[(pwBase+i)%len(PwPool)]
		mkAuth := func() *model.AuthCfg {
			a := &model.AuthCfg{Type: 1, Options: map[string]string{"hash": pw.Hash}, Password: pw.Pw}
			if o.Keychain && r.Chance(25) {
				a.Options = map[string]string{"group": "g", "key": u.Name}
				a.KeychainErr = r.Chance(25)
			}
			if o.EmptyPw && r.Chance(15) {
				// the stored credential is the hash of the empty string
				a.Options = map[string]string{"hash": EmptyPwHash}
				a.Password = ""
			}
			if o.OddAuth && r.Chance(20) {
				switch r.Intn(3) {
				case 0:
					a.Options = map[string]string{"hash": "zz-not-hex"}
					a.Password = ""
				case 1:
					a.Options = map[string]string{"hash": "00"}
					a.Password = ""
				case 2:
					a.Type = 2 // no such authenticator registered
					a.Password = ""
				}
			}
			return a
		}
		mkAcct := func() *model.AcctCfg {
			a := &model.AcctCfg{Name: "file", Type: 3}
			if o.OddAuth && r.Chance(15) {
				a.Type = PickOf(r, 1, 2, 7)
			}
			return a
		}
		ng := r.Intn(3)
		for g := 0; g < ng; g++ {
			grp := model.GroupCfg{Name: fmt.Sprintf("g%d", g)}
			if r.Chance(40) {
				grp.Authenticator = mkAuth()
			}
			if r.Chance(40) {
				grp.Accounter = mkAcct()
			}
			grp.Commands = genCommands(r, o, r.Intn(3))
			grp.Services = genServices(r, d, r.Intn(3))
			u.Groups = append(u.Groups, grp)
		}
		if r.Chance(65) {
			u.Authenticator = mkAuth()
		}
		if r.Chance(55) {
			u.Accounter = mkAcct()
		}
		u.Commands = genCommands(r, o, r.Intn(4))
		u.Services = genServices(r, d, r.Intn(3))
		d.Users = append(d.Users, u)
	}
	if o.DupUsers && ns >= 2 && len(d.Users) > 0 && r.Chance(60) {
		// the same name once more, for the scopes the first entry is not in, with another
		// password: what a name means depends on the scope the connection is bound to
		src := d.Users[r.Intn(len(d.Users))]
		var rest []string
		for _, sc := range d.Secrets {
			in := false
			for _, x := range src.Scopes {
				if x == sc.Name {
					in = true
				}
			}
			if !in {
				rest = append(rest, sc.Name)
			}
		}
		if len(rest) > 0 {
			pw := PwPool[(pwBase+len(d.Users)+1)%len(PwPool)]
			dup := model.UserCfg{Name: src.Name, Scopes: rest,
				Authenticator: &model.AuthCfg{Type: 1, Options: map[string]string{"hash": pw.Hash}, Password: pw.Pw}}
			if r.Chance(50) {
				dup.Accounter = &model.AcctCfg{Name: "file", Type: 3}
			}
			dup.Commands = genCommands(r, o, r.Intn(3))
			dup.Services = genServices(r, d, r.Intn(3))
			d.Users = append(d.Users, dup)
		}
	}
	if o.Filters {
		if r.Chance(40) {
			d.PrefixDeny = append(d.PrefixDeny, PickOf(r, "10.0.1.0/24", "10.4.0.0/16", "10.0.0.128/25", "192.168.0.0/16", "2001:db8:4::/48"))
		}
		// a deny prefix strictly wider than an allow prefix (its network address lies outside
		// every allowed range): everything in that allow prefix is still refused
		wide := o.Filters && r.Chance(15)
		if wide {
			d.PrefixDeny = append(d.PrefixDeny, PickOf(r, "10.0.0.0/12", "10.0.0.0/9", "2001:db8::/46"))
		}
		if wide {
			d.PrefixAllow = append(d.PrefixAllow, PickOf(r, "10.4.0.0/16", "10.8.0.0/13", "10.0.1.0/24", "2001:db8:2::/48"))
			if r.Chance(50) {
				d.PrefixAllow = append(d.PrefixAllow, PickOf(r, "10.0.0.0/16", "2001:db8:1::/48", "10.64.0.0/10"))
			}
		} else if r.Chance(30) {
			d.PrefixAllow = append(d.PrefixAllow, PickOf(r, "10.0.0.0/8", "10.0.0.0/16", "10.0.0.0/9", "2001:db8::/32"))
			if r.Chance(50) {
				d.PrefixAllow = append(d.PrefixAllow, PickOf(r, "10.4.0.0/16", "2001:db8::/32", "10.8.0.0/13"))
			}
		}
	}
	return d
}

func genCommands(r *Rand, o DocOpts, n int) []model.CommandCfg {
	var out []model.CommandCfg
	for i := 0; i < n; i++ {
		c := model.CommandCfg{Name: PickOf(r, cmdNames...), Action: PickOf(r, model.ActionPermit, model.ActionPermit, model.ActionDeny)}
		if c.Name == "*" && r.Chance(60) {
			c.Name = "show"
		}
		if r.Chance(3) {
			c.Action = PickOf(r, 0, 3)
		}
		np := r.Intn(3)
		for k := 0; k < np; k++ {
			p := PickOf(r, cmdPatterns...)
			if o.InvalidRegex && r.Chance(8) {
				p = PickOf(r, "(unclosed", "a)|(b", "[z-a]", "*x")
			}
			if !o.NoSpaces && r.Chance(10) {
				p = " " + p + " "
			}
			if r.Chance(4) {
				p = ""
			}
			c.Match = append(c.Match, p)
		}
		if !o.NoSpaces && r.Chance(8) {
			c.Name = " " + c.Name
		}
		out = append(out, c)
	}
	return out
}

func genServices(r *Rand, d model.Doc, n int) []model.ServiceCfg {
	var out []model.ServiceCfg
	for i := 0; i < n; i++ {
		s := model.ServiceCfg{Name: PickOf(r, svcNames...)}
		if r.Chance(8) && len(d.Secrets) > 0 {
			s.Name = d.Secrets[r.Intn(len(d.Secrets))].Name // selected by the injected scope argument
		}
		if r.Chance(35) {
			s.Match = append(s.Match, model.ValueCfg{Name: "protocol", Values: []string{PickOf(r, "ip", "lcp")}})
		}
		if r.Chance(25) && len(d.Secrets) > 0 {
			s.Match = append(s.Match, model.ValueCfg{Name: "scope", Values: []string{d.Secrets[r.Intn(len(d.Secrets))].Name}})
		}
		if r.Chance(5) {
			s.Match = append(s.Match, model.ValueCfg{Name: "protocol"}) // presence only
		}
		if r.Chance(12) {
			s.Name = " " + s.Name + " " // the authorizer trims names: padding is legal
		}
		nv := 1 + r.Intn(3)
		for k := 0; k < nv; k++ {
			v := model.ValueCfg{Name: PickOf(r, "priv-lvl", "shell:roles", "local-user-name", "allow-commands", "idletime"),
				Values: []string{PickOf(r, "15", "admin", "netops", "network-admin vdc-admin", "^configure (private|exclusive)$", "1")}, Optional: r.Chance(30)}
			if r.Chance(15) {
				v.Values = append(v.Values, PickOf(r, "extra", "2"))
			}
			if r.Chance(4) {
				// a value that is legal in the file but does not fit one argument on the
				// wire (255 octets): e.g. a long allow-commands expression
				v.Values = []string{"^(" + r.Alnum(PickOf(r, 250, 260, 300)) + ")$"}
			}
			s.SetValues = append(s.SetValues, v)
		}
		out = append(out, s)
	}
	return out
}

// AddrIn returns an address inside (or, with off=true, just outside) a CIDR.
func AddrIn(r *Rand, cidr string, outside bool) net.IP {
	_, n, err := net.ParseCIDR(cidr)
	if err != nil {
		return net.IPv4(203, 0, 113, 9)
	}
	ip := append(net.IP(nil), n.IP...)
	ones, bits := n.Mask.Size()
	host := bits - ones
	// choose first, last or random host address
	mode := r.Intn(3)
	for i := 0; i < host; i++ {
		bi, sh := (bits-1-i)/8, uint(i%8)
		var bit byte
		switch mode {
		case 0:
			bit = 0
		case 1:
			bit = 1
		default:
			bit = byte(r.Intn(2))
		}
		ip[bi] = ip[bi]&^(1<<sh) | bit<<sh
	}
	if outside && ones > 0 {
		// flip the last network bit: the neighbouring prefix
		i := ones - 1
		ip[i/8] ^= 1 << uint(7-i%8)
	}
	return ip
}
