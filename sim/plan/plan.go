// Package plan defines the explicit, replayable description of one simulated run and
// the seeded generators and shrinkers for it. It imports nothing from tacquito.
package plan

import (
	"encoding/json"
	"hash/fnv"
	"net"
	"strings"

	"tqsim/model"
	"tqsim/world"
)

// Plan is one run: a scenario plus the tape that decides every scheduling choice.
type Plan struct {
	V        int      `json:"v"`
	Property string   `json:"property"`
	Family   string   `json:"family"`
	Seed     uint64   `json:"seed"`
	Run      int      `json:"run"`
	Mode     string   `json:"mode"`  // serial | batch
	Build    string   `json:"build"` // plain | race | yield
	Scen     Scenario `json:"scenario"`
	Park     []string `json:"park,omitempty"`
	Tape     []uint32 `json:"tape"`
	MaxSteps int      `json:"max_steps"`
	Expect   *Expect  `json:"expect,omitempty"`
}

// Expect is present in replay files: the violation class the replay must reproduce.
type Expect struct {
	Class  string `json:"class"`
	Detail string `json:"detail"`
}

// Scenario describes the system under test and its environment for one run.
type Scenario struct {
	Server  string       `json:"server"` // probe | ref | none
	Format  string       `json:"format,omitempty"`
	Docs    []model.Doc  `json:"docs,omitempty"`
	RawDocs []string     `json:"raw_docs,omitempty"`
	Clients []ClientSpec `json:"clients,omitempty"`
	Ctl     []Ctl        `json:"ctl,omitempty"`
	// Stall allows the scheduler to advance the clock while other events are enabled.
	Stall bool `json:"stall,omitempty"`
	// Proxy: the server runs with SetUseProxy(true): every packet is preceded by an
	// HA-proxy ASCII line (ClientSpec.Proxy makes the model client send them)
	Proxy bool `json:"proxy,omitempty"`
	// Sibling: a second Server value in the same process holds this many idle connections
	// open for the whole run (C20: the exported gauges are shared by all servers of a process)
	Sibling int `json:"sibling,omitempty"`
	// Faulty marks fault-injecting configurations (oracles relax narrowly under it).
	Faulty bool `json:"faulty,omitempty"`
	// LogLevelDebug etc. are always on: the simulated logger records every call.
	Loader *LoaderScen     `json:"loader,omitempty"`
	Extra  json.RawMessage `json:"extra,omitempty"`
}

// Ctl is a control event the scheduler may apply once enabled.
type Ctl struct {
	Kind      string `json:"kind"` // cancel | publish | accept-fault | close-listener
	Arg       string `json:"arg,omitempty"`
	N         int    `json:"n,omitempty"`
	NotBefore int    `json:"not_before,omitempty"` // scheduler step
	// AfterClientOp: enabled only after client C has executed op index I (I<0: ignored).
	AfterClient int `json:"after_client,omitempty"`
	AfterOp     int `json:"after_op,omitempty"`
}

// ClientSpec is one simulated peer and the connection it opens.
type ClientSpec struct {
	Addr      string             `json:"addr"` // "ip:port" as the server sees it; "" with NonTCP
	NonTCP    bool               `json:"non_tcp,omitempty"`
	Key       []byte             `json:"key"`               // the key this client obfuscates with
	SrvKey    []byte             `json:"srv_key,omitempty"` // probe server: key bound to this connection
	Refuse    bool               `json:"refuse,omitempty"`  // probe server: provider refuses this address
	Handler   []HStep            `json:"handler,omitempty"` // probe server: behaviour per invocation
	Ops       []Op               `json:"ops"`
	NotBefore int                `json:"not_before,omitempty"`
	WFault    []world.WriteFault `json:"wfault,omitempty"`
	Real      bool               `json:"real,omitempty"`      // ops run through tacquito.Client
	ReusePkt  bool               `json:"reuse_pkt,omitempty"` // Real: the caller refills one packet object for every request
	EOFData   bool               `json:"eof_data,omitempty"`  // the transport returns the stream's last bytes together with io.EOF
	Proxy     bool               `json:"proxy,omitempty"`     // every packet is preceded by an HA-proxy ASCII line
	Scripted  bool               `json:"scripted,omitempty"`  // bytes reach the server only through this client's pace ops (segmentation by script, not by tape)
	// SrvScript: for Real clients talking to a model server: replies the model server
	// writes, one list per request received.
	SrvReplies []SrvReply `json:"srv_replies,omitempty"`
	User       string     `json:"user,omitempty"` // informational (ref scenarios)
	Tag        string     `json:"tag,omitempty"`
}

// Op is one step of a client script.
type Op struct {
	Kind string   `json:"kind"` // send | raw | await | close | reset | idle | pace
	Pkt  *PktSpec `json:"pkt,omitempty"`
	Raw  []byte   `json:"raw,omitempty"`
	N    int      `json:"n,omitempty"`
	// pace: everything the client has written except its last Keep bytes reaches the
	// server in one segment, then N milliseconds pass
	Keep int `json:"keep,omitempty"`
	// Sess/Step annotate which logical session script this op belongs to (C09).
	Sess int `json:"sess,omitempty"`
}

// PktSpec is a packet a client sends.
type PktSpec struct {
	Ver     uint8    `json:"ver"`
	Type    uint8    `json:"type"`
	Seq     uint8    `json:"seq"`
	Flags   uint8    `json:"flags"`
	Session uint32   `json:"sess"`
	Body    BodySpec `json:"body"`
	// LenOverride, when set, is announced instead of the true body length.
	LenOverride *uint32 `json:"len_override,omitempty"`
	// Trunc >= 0 sends only the first Trunc bytes of the wire image.
	Trunc *int `json:"trunc,omitempty"`
	// FlipBit >= 0 flips that bit of the wire image.
	FlipBit *int `json:"flip_bit,omitempty"`
	// Key overrides the client's key for this packet.
	Key []byte `json:"key,omitempty"`
	// SeqWide (real clients only): a sequence number beyond the one-octet wire field,
	// which the library must refuse to encode.
	SeqWide uint16 `json:"seq_wide,omitempty"`
	// BodyFirst (real clients only): build the packet with the body option before the
	// header option, which leaves the header's length field stale until it is written.
	BodyFirst bool `json:"body_first,omitempty"`
	// Only (real client): sent with Client.SendOnly; its reply stays on the stream for a later Send
	Only bool `json:"only,omitempty"`
}

// BodySpec is a value of one of the seven bodies in a neutral form, or raw bytes.
type BodySpec struct {
	Kind string   `json:"kind"` // model.K* or "raw"
	N    []uint8  `json:"n,omitempty"`
	S    [][]byte `json:"s,omitempty"`
	Args [][]byte `json:"args,omitempty"`
	Raw  []byte   `json:"raw,omitempty"`
	// Fill: when > 0, S[FillIdx] is replaced at run time by Fill bytes derived from
	// FillSeed (keeps replay files small for 64 KiB bodies).
	Fill     int    `json:"fill,omitempty"`
	FillIdx  int    `json:"fill_idx,omitempty"`
	FillSeed uint64 `json:"fill_seed,omitempty"`
}

// HStep is what the probe handler does on its i-th invocation on a connection.
type HStep struct {
	Decode string     `json:"decode,omitempty"` // library decoder to run on the body
	Reply  *BodySpec  `json:"reply,omitempty"`  // value passed to Response.Reply
	Extra  []BodySpec `json:"extra,omitempty"`  // further replies (normally none)
	Next   int        `json:"next,omitempty"`   // >0: register continuation with this id
	Park   bool       `json:"park,omitempty"`   // park inside the handler
	// ViaWrite: send the reply with Response.Write and a hand-made header whose length
	// field is WrongLen (the server must still announce the true length).
	ViaWrite bool   `json:"via_write,omitempty"`
	WrongLen uint32 `json:"wrong_len,omitempty"`
}

// SrvReply is what a model server writes in response to the i-th request of a real client.
type SrvReply struct {
	Pkt   *PktSpec `json:"pkt,omitempty"`
	Close bool     `json:"close,omitempty"`
}

// LoaderScen drives configuration-history scenarios (C15 b/c, C16).
type LoaderScen struct {
	// Watcher: the history goes through the reference server's file watcher: documents are
	// written to files in the watched directory, change events are delivered to the watch
	// loop and the (simulated) clock is advanced past its tick
	Watcher bool         `json:"watcher,omitempty"`
	Steps   []LoaderStep `json:"steps"`
	Probe   []string     `json:"probe,omitempty"` // addresses looked up between steps
}

// LoaderStep is one document handed to a loader.
type LoaderStep struct {
	Doc   int    `json:"doc"`            // index into Scenario.RawDocs
	Via   string `json:"via"`            // unmarshal | load
	Tear  string `json:"tear,omitempty"` // "", short, stale-tail, empty, garbage
	TearN int    `json:"tear_n,omitempty"`
	// watcher histories: the document is written to the configured file ("") or to a
	// sibling in the same directory whose name is the configured name plus this suffix
	Sibling string `json:"sibling,omitempty"`
	// OldMtime: the file is put in place with a modification time older than that of every
	// file loaded before (a restored backup, cp -p, rsync -a, a clock stepped back)
	OldMtime bool `json:"old_mtime,omitempty"`
	// Replace: the document is written next to the file and renamed over it (what editors
	// and config management do) instead of rewriting the file in place
	Replace bool `json:"replace,omitempty"`
	// NoTake: nobody consumes what this step publishes until a later step does (a slow
	// consumer of the loader's channel)
	NoTake bool `json:"no_take,omitempty"`
	// NoEvent: the write is not followed by a change event (e.g. lost by the notifier)
	NoEvent bool `json:"no_event,omitempty"`
}

// ---- body conversion to the model --------------------------------------------

func nth(n []uint8, i int) uint8 {
	if i < len(n) {
		return n[i]
	}
	return 0
}
func sth(s [][]byte, i int) []byte {
	if i < len(s) && s[i] != nil {
		return s[i]
	}
	return []byte{}
}

// Materialize expands Fill.
func (b BodySpec) Materialize() BodySpec {
	if b.Fill <= 0 {
		return b
	}
	out := b
	out.S = make([][]byte, len(b.S))
	copy(out.S, b.S)
	for len(out.S) <= b.FillIdx {
		out.S = append(out.S, []byte{})
	}
	r := NewRand(b.FillSeed)
	f := make([]byte, b.Fill)
	for i := range f {
		f[i] = byte(0x20 + r.Intn(0x5f))
	}
	out.S[b.FillIdx] = f
	out.Fill = 0
	return out
}

// Encode renders the body per the RFC with the independent model encoder.
func (b BodySpec) Encode() []byte {
	b = b.Materialize()
	switch b.Kind {
	case "raw":
		if b.Raw == nil {
			return []byte{}
		}
		return b.Raw
	case model.KAuthenStart:
		return model.AuthenStart{Action: nth(b.N, 0), PrivLvl: nth(b.N, 1), Type: nth(b.N, 2), Service: nth(b.N, 3),
			User: sth(b.S, 0), Port: sth(b.S, 1), RemAddr: sth(b.S, 2), Data: sth(b.S, 3)}.Encode()
	case model.KAuthenReply:
		return model.AuthenReply{Status: nth(b.N, 0), Flags: nth(b.N, 1), ServerMsg: sth(b.S, 0), Data: sth(b.S, 1)}.Encode()
	case model.KAuthenCont:
		return model.AuthenContinue{Flags: nth(b.N, 0), UserMsg: sth(b.S, 0), Data: sth(b.S, 1)}.Encode()
	case model.KAuthorReq:
		return model.AuthorRequest{Method: nth(b.N, 0), PrivLvl: nth(b.N, 1), Type: nth(b.N, 2), Service: nth(b.N, 3),
			User: sth(b.S, 0), Port: sth(b.S, 1), RemAddr: sth(b.S, 2), Args: b.Args}.Encode()
	case model.KAuthorReply:
		return model.AuthorReply{Status: nth(b.N, 0), ServerMsg: sth(b.S, 0), Data: sth(b.S, 1), Args: b.Args}.Encode()
	case model.KAcctReq:
		return model.AcctRequest{Flags: nth(b.N, 0), Method: nth(b.N, 1), PrivLvl: nth(b.N, 2), Type: nth(b.N, 3), Service: nth(b.N, 4),
			User: sth(b.S, 0), Port: sth(b.S, 1), RemAddr: sth(b.S, 2), Args: b.Args}.Encode()
	case model.KAcctReply:
		return model.AcctReply{Status: nth(b.N, 0), ServerMsg: sth(b.S, 0), Data: sth(b.S, 1)}.Encode()
	}
	return []byte{}
}

// Wire renders the packet as the client puts it on the wire.
func (p PktSpec) Wire(clientKey []byte) []byte {
	body := p.Body.Encode()
	h := model.Header{Version: p.Ver, Type: p.Type, Seq: p.Seq, Flags: p.Flags, Session: p.Session, Length: uint32(len(body))}
	key := clientKey
	if p.Key != nil {
		key = p.Key
	}
	ob := model.Obfuscate(h, key, body)
	if p.LenOverride != nil {
		h.Length = *p.LenOverride
	}
	w := append(h.Encode(), ob...)
	if p.FlipBit != nil && *p.FlipBit >= 0 && *p.FlipBit/8 < len(w) {
		w[*p.FlipBit/8] ^= 1 << uint(*p.FlipBit%8)
	}
	if p.Trunc != nil && *p.Trunc >= 0 && *p.Trunc < len(w) {
		w = w[:*p.Trunc]
	}
	return w
}

// Header returns the header as sent (before flip/trunc).
func (p PktSpec) Header() model.Header {
	body := p.Body.Encode()
	h := model.Header{Version: p.Ver, Type: p.Type, Seq: p.Seq, Flags: p.Flags, Session: p.Session, Length: uint32(len(body))}
	if p.LenOverride != nil {
		h.Length = *p.LenOverride
	}
	return h
}

// Mangled reports whether the wire image differs from the plain encoding.
func (p PktSpec) Mangled() bool {
	return p.LenOverride != nil || p.Trunc != nil || p.FlipBit != nil
}

// ---- PRNG ----------------------------------------------------------------------

// Rand is splitmix64.
type Rand struct{ s uint64 }

func NewRand(seed uint64) *Rand { return &Rand{s: seed} }

func (r *Rand) U64() uint64 {
	r.s += 0x9e3779b97f4a7c15
	z := r.s
	z = (z ^ (z >> 30)) * 0xbf58476d1ce4e5b9
	z = (z ^ (z >> 27)) * 0x94d049bb133111eb
	return z ^ (z >> 31)
}
func (r *Rand) Intn(n int) int {
	if n <= 0 {
		return 0
	}
	return int(r.U64() % uint64(n))
}

// Perm returns a permutation of 0..n-1.
func (r *Rand) Perm(n int) []int {
	out := make([]int, n)
	for i := range out {
		out[i] = i
	}
	for i := n - 1; i > 0; i-- {
		j := r.Intn(i + 1)
		out[i], out[j] = out[j], out[i]
	}
	return out
}
func (r *Rand) Bool() bool        { return r.U64()&1 == 1 }
func (r *Rand) Chance(p int) bool { return r.Intn(100) < p } // p percent
func (r *Rand) U32() uint32       { return uint32(r.U64()) }
func (r *Rand) Bytes(n int) []byte {
	b := make([]byte, n)
	for i := range b {
		b[i] = byte(r.U64())
	}
	return b
}

// ASCII returns n printable ASCII bytes (0x20..0x7e).
func (r *Rand) ASCII(n int) []byte {
	b := make([]byte, n)
	for i := range b {
		b[i] = byte(0x20 + r.Intn(0x5f))
	}
	return b
}

// Alnum returns n lowercase alphanumerics.
func (r *Rand) Alnum(n int) string {
	const cs = "abcdefghijklmnopqrstuvwxyz0123456789"
	b := make([]byte, n)
	for i := range b {
		b[i] = cs[r.Intn(len(cs))]
	}
	return string(b)
}

func PickOf[T any](r *Rand, xs ...T) T { return xs[r.Intn(len(xs))] }

// Tape draws n tape values.
func (r *Rand) Tape(n int) []uint32 {
	t := make([]uint32, n)
	for i := range t {
		t[i] = r.U32()
	}
	return t
}

// RunSeed derives the PRNG seed of one run from VERIF_SEED, the property and the run index.
func RunSeed(seed uint64, property string, run int) uint64 {
	h := fnv.New64a()
	h.Write([]byte(property))
	x := h.Sum64() ^ seed*0x9e3779b97f4a7c15 ^ uint64(run)*0xd1b54a32d192ed03
	return NewRand(x).U64()
}

// Lens is the boundary-biased length distribution for a field of the given wire width.
func (r *Rand) Len(max int) int {
	cands := []int{0, 1, 2, 3, 15, 16, 17, 31, 32, 33, 106, 107, 108, 127, 128, 254, 255, 256, 1000, 4095, 4096, 65534, 65535}
	for {
		var n int
		switch r.Intn(4) {
		case 0:
			n = r.Intn(12)
		case 1:
			n = r.Intn(300)
		default:
			n = cands[r.Intn(len(cands))]
		}
		if n <= max {
			return n
		}
	}
}

// Model converts the neutral value into the model's typed value.
func (b BodySpec) Model() interface{} {
	b = b.Materialize()
	switch b.Kind {
	case model.KAuthenStart:
		return model.AuthenStart{Action: nth(b.N, 0), PrivLvl: nth(b.N, 1), Type: nth(b.N, 2), Service: nth(b.N, 3),
			User: sth(b.S, 0), Port: sth(b.S, 1), RemAddr: sth(b.S, 2), Data: sth(b.S, 3)}
	case model.KAuthenReply:
		return model.AuthenReply{Status: nth(b.N, 0), Flags: nth(b.N, 1), ServerMsg: sth(b.S, 0), Data: sth(b.S, 1)}
	case model.KAuthenCont:
		return model.AuthenContinue{Flags: nth(b.N, 0), UserMsg: sth(b.S, 0), Data: sth(b.S, 1)}
	case model.KAuthorReq:
		return model.AuthorRequest{Method: nth(b.N, 0), PrivLvl: nth(b.N, 1), Type: nth(b.N, 2), Service: nth(b.N, 3),
			User: sth(b.S, 0), Port: sth(b.S, 1), RemAddr: sth(b.S, 2), Args: b.Args}
	case model.KAuthorReply:
		return model.AuthorReply{Status: nth(b.N, 0), ServerMsg: sth(b.S, 0), Data: sth(b.S, 1), Args: b.Args}
	case model.KAcctReq:
		return model.AcctRequest{Flags: nth(b.N, 0), Method: nth(b.N, 1), PrivLvl: nth(b.N, 2), Type: nth(b.N, 3), Service: nth(b.N, 4),
			User: sth(b.S, 0), Port: sth(b.S, 1), RemAddr: sth(b.S, 2), Args: b.Args}
	case model.KAcctReply:
		return model.AcctReply{Status: nth(b.N, 0), ServerMsg: sth(b.S, 0), Data: sth(b.S, 1)}
	}
	return nil
}

// Representable says whether the value fits its wire length fields and passes the
// type's own validation rules, i.e. whether an encoder must accept it.
func (b BodySpec) Representable() bool {
	switch v := b.Model().(type) {
	case model.AuthenStart:
		return v.Fits() && v.Valid()
	case model.AuthenReply:
		return v.Fits() && v.Valid()
	case model.AuthenContinue:
		return v.Fits() && v.Valid()
	case model.AuthorRequest:
		return v.Fits() && v.Valid()
	case model.AuthorReply:
		return v.Fits() && v.Valid()
	case model.AcctRequest:
		return v.Fits() && v.Valid()
	case model.AcctReply:
		return v.Fits() && v.Valid()
	}
	return b.Kind == "raw"
}

// Sendable: representable as a body and small enough for one packet (65536 octets).
func (b BodySpec) Sendable() bool {
	return b.Representable() && len(b.Encode()) <= model.MaxBody
}

// FromModelBytes decodes RFC-laid-out bytes of a kind into the neutral form with the
// model's strict decoder.
func FromModelBytes(kind string, b []byte) (BodySpec, error) {
	S := func(xs ...[]byte) [][]byte { return xs }
	switch kind {
	case model.KAuthenStart:
		v, err := model.DecodeAuthenStart(b)
		return BodySpec{Kind: kind, N: []uint8{v.Action, v.PrivLvl, v.Type, v.Service}, S: S(v.User, v.Port, v.RemAddr, v.Data)}, err
	case model.KAuthenReply:
		v, err := model.DecodeAuthenReply(b)
		return BodySpec{Kind: kind, N: []uint8{v.Status, v.Flags}, S: S(v.ServerMsg, v.Data)}, err
	case model.KAuthenCont:
		v, err := model.DecodeAuthenContinue(b)
		return BodySpec{Kind: kind, N: []uint8{v.Flags}, S: S(v.UserMsg, v.Data)}, err
	case model.KAuthorReq:
		v, err := model.DecodeAuthorRequest(b)
		return BodySpec{Kind: kind, N: []uint8{v.Method, v.PrivLvl, v.Type, v.Service}, S: S(v.User, v.Port, v.RemAddr), Args: v.Args}, err
	case model.KAuthorReply:
		v, err := model.DecodeAuthorReply(b)
		return BodySpec{Kind: kind, N: []uint8{v.Status}, S: S(v.ServerMsg, v.Data), Args: v.Args}, err
	case model.KAcctReq:
		v, err := model.DecodeAcctRequest(b)
		return BodySpec{Kind: kind, N: []uint8{v.Flags, v.Method, v.PrivLvl, v.Type, v.Service}, S: S(v.User, v.Port, v.RemAddr), Args: v.Args}, err
	case model.KAcctReply:
		v, err := model.DecodeAcctReply(b)
		return BodySpec{Kind: kind, N: []uint8{v.Status}, S: S(v.ServerMsg, v.Data)}, err
	}
	return BodySpec{}, nil
}

// Same compares two neutral values field by field (nil and empty are equal).
func (b BodySpec) Same(o BodySpec) bool {
	b, o = b.Materialize(), o.Materialize()
	if b.Kind != o.Kind {
		return false
	}
	nn := len(b.N)
	if len(o.N) > nn {
		nn = len(o.N)
	}
	for i := 0; i < nn; i++ {
		if nth(b.N, i) != nth(o.N, i) {
			return false
		}
	}
	ns := len(b.S)
	if len(o.S) > ns {
		ns = len(o.S)
	}
	for i := 0; i < ns; i++ {
		if string(sth(b.S, i)) != string(sth(o.S, i)) {
			return false
		}
	}
	if len(b.Args) != len(o.Args) {
		return false
	}
	for i := range b.Args {
		if string(b.Args[i]) != string(o.Args[i]) {
			return false
		}
	}
	return true
}

// ProxyLine is the HA-proxy ASCII line a proxying load balancer puts before every packet
// of this client (proxy-protocol v1 text form, NUL terminated as tacquito expects it).
func (cs *ClientSpec) ProxyLine() []byte {
	if !cs.Proxy {
		return nil
	}
	host, port := "198.51.100.7", "40000"
	if h, p, err := net.SplitHostPort(cs.Addr); err == nil {
		host, port = h, p
	}
	fam := "TCP4"
	if strings.Contains(host, ":") {
		fam = "TCP6"
	}
	return []byte("PROXY " + fam + " " + host + " 192.0.2.1 " + port + " 49\r\n\x00")
}
