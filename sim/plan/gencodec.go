package plan

import (
	"tqsim/model"
)

func init() {
	register("C01", func(r *Rand, p *Plan, t string) { genCodec(r, p, t, "C01") })
	register("C02", func(r *Rand, p *Plan, t string) { genCodec(r, p, t, "C02") })
	register("C03", func(r *Rand, p *Plan, t string) { genCodec(r, p, t, "C03") })
	register("C04", genC04)
}

var allKinds = []string{model.KAuthenStart, model.KAuthenReply, model.KAuthenCont, model.KAuthorReq, model.KAuthorReply, model.KAcctReq, model.KAcctReply}

// GenBodyWide draws a value on either side of the representability boundary: lengths
// across each wire width, argument counts and sizes, non-ASCII text, unknown enum
// members, the combinations the types' validation rules exclude.
func GenBodyWide(r *Rand, kind string) BodySpec {
	b := GenBody(r, kind, r.Chance(30))
	width8 := kind == model.KAuthenStart || kind == model.KAuthorReq || kind == model.KAcctReq
	mutate := r.Intn(10)
	switch mutate {
	case 0, 1: // a text field across its wire width
		if len(b.S) > 0 {
			i := r.Intn(len(b.S))
			if width8 {
				b.S[i] = r.text(PickOf(r, 254, 255, 256, 257, 300, 511, 512))
			} else {
				n := PickOf(r, 65534, 65535, 65536, 65537, 70000)
				b.S[i] = nil
				b.Fill, b.FillIdx, b.FillSeed = n, i, r.U64()
			}
		}
	case 2: // argument count and argument sizes
		if kind == model.KAuthorReq || kind == model.KAuthorReply || kind == model.KAcctReq {
			switch r.Intn(4) {
			case 0:
				n := PickOf(r, 255, 256, 257)
				b.Args = make([][]byte, n)
				for i := range b.Args {
					b.Args[i] = []byte("a=")
				}
			case 1:
				b.Args = append(b.Args, r.text(PickOf(r, 255, 256, 300)))
			case 2:
				b.Args = append(b.Args, r.text(PickOf(r, 0, 1, 2)))
			case 3:
				b.Args = append(b.Args, []byte{'k', '=', byte(0x80 + r.Intn(0x7f))})
			}
		}
	case 3: // non-ASCII text
		if len(b.S) > 0 {
			i := r.Intn(len(b.S))
			b.S[i] = append(r.text(r.Intn(10)), byte(0x80+r.Intn(0x80)))
		}
	case 4: // unknown enum members / excluded combinations
		if len(b.N) > 0 {
			i := r.Intn(len(b.N))
			b.N[i] = uint8(r.Intn(256))
		}
		if kind == model.KAuthenStart && r.Chance(30) {
			b.N[2] = 0 // type not set
		}
		if kind == model.KAcctReq && r.Chance(40) {
			b.N[0] = 4 | 8 | uint8(r.Intn(4)) // stop + watchdog
		}
	}
	return b
}

// rcClient builds a real-client script against the model server.
func rcClient(r *Rand, idx int, focus string) ClientSpec {
	key := r.key()
	cs := ClientSpec{Addr: clientAddr(idx), Key: key, SrvKey: key, Real: true}
	n := 1 + r.Intn(up(6))
	seq := 1
	sid := r.session()
	for k := 0; k < n; k++ {
		typ := uint8(1 + r.Intn(3))
		kind := PickOf(r, requestKinds(typ)...)
		if r.Chance(10) {
			kind = PickOf(r, allKinds...) // the library encodes any body into any packet type
		}
		var body BodySpec
		switch focus {
		case "C02":
			body = GenBodyWide(r, kind)
		case "C03":
			body = GenBody(r, kind, r.Chance(30))
			if r.Chance(35) {
				typ = model.TypeAuthen
				body = bigBody(r, PickOf(r, 5, 15, 16, 17, 31, 32, 33, 47, 48, 49, 4095, 4096, 4097, 65535, 65536, 21))
			}
		default:
			body = GenBody(r, kind, r.Chance(40))
		}
		if r.Chance(15) {
			sid = r.session()
			seq = PickOf(r, 1, 3, 253, 255, 1+2*r.Intn(127))
		}
		fl := r.flags(focus != "C02")
		pk := &PktSpec{Ver: r.version(), Type: typ, Seq: uint8(seq), Flags: fl, Session: sid, Body: body}
		if focus == "C03" && r.Chance(20) {
			pk.BodyFirst = true
		}
		if focus == "C02" && r.Chance(8) {
			// header values the library must refuse
			switch r.Intn(4) {
			case 3:
				pk.SeqWide = PickOf(r, uint16(256), 257, 300, 511, 513, 65535)
			case 0:
				pk.Seq = 0
			case 1:
				pk.Ver = PickOf(r, uint8(0xc2), 0xb0, 0x10)
			case 2:
				pk.Type = PickOf(r, uint8(0), 4, 9)
			}
		}
		cs.Ops = append(cs.Ops, Op{Kind: "send", Pkt: pk})
		// the model server's reply
		rk := replyKind(typ)
		var rb BodySpec
		if focus == "C03" && r.Chance(30) {
			rb = GenBody(r, rk, true)
		} else {
			rb = GenBody(r, rk, r.Chance(25))
		}
		rs := uint8(seq + 1)
		if seq >= 255 {
			rs = 1
		}
		reply := &PktSpec{Ver: pk.Ver, Type: typ, Seq: rs, Flags: fl, Session: sid, Body: rb}
		if r.Chance(10) {
			reply.Seq = PickOf(r, uint8(2), 4, 254)
		}
		cs.SrvReplies = append(cs.SrvReplies, SrvReply{Pkt: reply})
		seq += 2
		if seq > 255 {
			seq = 1
			sid = r.session()
		}
	}
	cs.Ops = append(cs.Ops, Op{Kind: "close"})
	cs.ReusePkt = r.Chance(40)
	return cs
}

// codecProbeClient is the model-client -> real-server half: requests of every kind
// decoded by the library in the handler, replies of every kind encoded by the library.
func codecProbeClient(r *Rand, idx int, focus string) ClientSpec {
	key := r.key()
	cs := ClientSpec{Addr: clientAddr(idx), Key: key, SrvKey: key}
	n := 1 + r.Intn(up(6))
	for k := 0; k < n; k++ {
		typ := uint8(1 + r.Intn(3))
		kind := PickOf(r, requestKinds(typ)...)
		if r.Chance(15) {
			kind = PickOf(r, allKinds...)
		}
		body := GenBody(r, kind, r.Chance(40))
		if focus == "C03" && r.Chance(35) {
			typ = model.TypeAuthen
			kind = model.KAuthenCont
			body = bigBody(r, PickOf(r, 5, 15, 16, 17, 31, 32, 33, 47, 48, 49, 4095, 4096, 4097, 65535, 65536))
		}
		pk := &PktSpec{Ver: r.version(), Type: typ, Seq: uint8(1 + 2*r.Intn(127)), Flags: r.flags(true), Session: r.session() + uint32(k), Body: body}
		cs.Ops = append(cs.Ops, Op{Kind: "send", Pkt: pk})
		st := HStep{Decode: kind}
		var rep BodySpec
		rk := replyKind(typ)
		if r.Chance(10) {
			rk = PickOf(r, allKinds...)
		}
		if focus == "C02" {
			rep = GenBodyWide(r, rk)
		} else {
			rep = GenBody(r, rk, r.Chance(35))
		}
		if rep.Kind == model.KAuthenReply && nth(rep.N, 0) == 6 && pk.Seq == 255 {
			rep.N[0] = 2
		}
		st.Reply = &rep
		if r.Chance(20) && pk.Seq < 255 && rep.Sendable() && !(rep.Kind == model.KAuthenReply && nth(rep.N, 0) == 6) {
			// the handler sends through Response.Write with a stale length in its header
			st.ViaWrite = true
			st.WrongLen = PickOf(r, uint32(0), 1, 7, 16, 17, uint32(r.Intn(64)))
		}
		cs.Handler = append(cs.Handler, st)
	}
	insertAwaits(r, &cs, PickOf(r, 0, 50, 100))
	if r.Chance(50) {
		cs.Ops = append(cs.Ops, Op{Kind: "close"})
	}
	return cs
}

func genCodec(r *Rand, p *Plan, tier string, focus string) {
	if r.Bool() {
		p.Family = "peer-vs-real-server"
		p.Scen.Server = "probe"
		n := 1 + r.Intn(2)
		for i := 0; i < n; i++ {
			p.Scen.Clients = append(p.Scen.Clients, codecProbeClient(r, i, focus))
		}
	} else {
		p.Family = "real-client-vs-peer"
		p.Scen.Server = "none"
		n := 1 + r.Intn(2)
		for i := 0; i < n; i++ {
			p.Scen.Clients = append(p.Scen.Clients, rcClient(r, i, focus))
		}
	}
	p.Tape = r.Tape(1500)
	p.MaxSteps = 4000
}

// ---- C04: decoding arbitrary bytes is total, memory-safe and bounded ---------------------

func genC04(r *Rand, p *Plan, tier string) {
	switch r.Intn(3) {
	case 0: // hostile streams into the real server (probe handlers decode with every decoder)
		p.Family = "hostile-to-server"
		p.Scen.Server = "probe"
		key := r.key()
		cs := ClientSpec{Addr: clientAddr(0), Key: key, SrvKey: key}
		n := 1 + r.Intn(6)
		for k := 0; k < n; k++ {
			typ := uint8(1 + r.Intn(3))
			kind := PickOf(r, allKinds...)
			body := GenBody(r, kind, r.Chance(30))
			pk := &PktSpec{Ver: r.version(), Type: typ, Seq: uint8(1 + 2*r.Intn(127)), Flags: r.flags(false), Session: uint32(100 + k), Body: body}
			w := pk.Wire(key)
			switch r.Intn(8) {
			case 0: // every truncation is a connection cut at that byte
				tr := r.Intn(len(w))
				if r.Chance(35) {
					// cuts on and next to the header/body boundary and the end of the packet
					tr = PickOf(r, 0, 1, 11, 12, 13, len(w)-1)
					if tr >= len(w) {
						tr = len(w) - 1
					}
				}
				pk.Trunc = &tr
			case 1: // a bit flipped in transit: header and length fields, or body
				bit := r.Intn(8 * len(w))
				if r.Chance(60) {
					bit = r.Intn(8 * 12)
				}
				pk.FlipBit = &bit
			case 2: // inconsistent length octets inside the body
				raw := body.Encode()
				if len(raw) > 0 {
					raw[r.Intn(min(len(raw), 12))] = byte(r.Intn(256))
				}
				pk.Body = BodySpec{Kind: "raw", Raw: raw}
			case 3: // announced length larger than what follows
				l := PickOf(r, uint32(len(w)), uint32(len(w)+100), 65536, 65537, 1<<31, 0xffffffff)
				pk.LenOverride = &l
			case 4:
				pk.Body = BodySpec{Kind: "raw", Raw: r.Bytes(r.Len(300))}
			}
			cs.Ops = append(cs.Ops, Op{Kind: "send", Pkt: pk})
			cs.Handler = append(cs.Handler, HStep{Decode: PickOf(r, allKinds...), Reply: smallReply(r, typ)})
			if pk.Trunc != nil {
				break
			}
		}
		if r.Chance(30) {
			cs.Ops = append(cs.Ops, Op{Kind: "raw", Raw: r.Bytes(r.Len(200))})
		}
		if r.Chance(12) {
			// the peer obfuscates with another key and is gone (or its path is) by the time
			// the receiver answers: the answer's write fails
			cs.Key = []byte("other-" + r.Alnum(8))
			cs.WFault = append(cs.WFault, WFaultAt(1, PickOf(r, "error", "error", "short")))
			p.Scen.Faulty = true
		}
		cs.Ops = append(cs.Ops, Op{Kind: PickOf(r, "close", "idle", "reset")})
		p.Scen.Clients = []ClientSpec{cs}
	case 1: // hostile replies into the real client's read path
		p.Family = "hostile-to-client"
		p.Scen.Server = "none"
		cs := rcClient(r, 0, "C01")
		for i := range cs.SrvReplies {
			rp := cs.SrvReplies[i].Pkt
			w := rp.Wire(cs.SrvKey)
			switch r.Intn(6) {
			case 0:
				tr := r.Intn(len(w))
				rp.Trunc = &tr
				cs.SrvReplies[i].Close = true
			case 1:
				bit := r.Intn(8 * 12)
				rp.FlipBit = &bit
				cs.SrvReplies[i].Close = true
			case 2:
				l := PickOf(r, uint32(65537), 1<<30, 0xffffffff, uint32(len(w)+7))
				rp.LenOverride = &l
				cs.SrvReplies[i].Close = true
			case 3:
				rp.Body = BodySpec{Kind: "raw", Raw: r.Bytes(r.Len(200))}
			}
		}
		p.Scen.Faulty = true
		p.Scen.Clients = []ClientSpec{cs}
	default: // hostile streams into the reference server (Request.Fields, bad-secret detector, all handlers)
		genC14(r, p, tier)
		p.Family = "hostile-to-ref"
	}
	p.Tape = r.Tape(1500)
	p.MaxSteps = 4000
}

func min(a, b int) int {
	if a < b {
		return a
	}
	return b
}
