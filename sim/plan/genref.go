package plan

import (
	"fmt"
	"net"

	"tqsim/model"
)

// SessScript is one logical AAA session: its packets in order; every packet but a
// request numbered 255 expects one reply before the next is sent.
type SessScript struct {
	Tag  string
	Pkts []*PktSpec
}

func startBody(action, typ, service uint8, user, port, rem, data string) BodySpec {
	return BodySpec{Kind: model.KAuthenStart, N: []uint8{action, 1, typ, service}, S: [][]byte{[]byte(user), []byte(port), []byte(rem), []byte(data)}}
}

func contBody(flags uint8, msg, data string) BodySpec {
	return BodySpec{Kind: model.KAuthenCont, N: []uint8{flags}, S: [][]byte{[]byte(msg), []byte(data)}}
}

// SessPAP is a PAP login (minor version 1 unless overridden).
func SessPAP(sid uint32, ver uint8, flags uint8, user, pw string) SessScript {
	return SessScript{Tag: "pap", Pkts: []*PktSpec{{Ver: ver, Type: model.TypeAuthen, Seq: 1, Flags: flags, Session: sid,
		Body: startBody(1, 2, 1, user, "tty0", "192.0.2.7", pw)}}}
}

// SessASCII is an ASCII login; abortAt >= 0 sets the abort flag on that CONTINUE.
func SessASCII(sid uint32, flags uint8, user, pw string, userInStart bool, abortAt int) SessScript {
	s := SessScript{Tag: "ascii"}
	seq := uint8(1)
	su := ""
	if userInStart {
		su = user
	}
	s.Pkts = append(s.Pkts, &PktSpec{Ver: 0xc0, Type: model.TypeAuthen, Seq: seq, Flags: flags, Session: sid, Body: startBody(1, 1, 1, su, "tty0", "192.0.2.7", "")})
	msgs := []string{pw}
	if !userInStart {
		msgs = []string{user, pw}
	}
	for i, m := range msgs {
		seq += 2
		fl := uint8(0)
		if i == abortAt {
			fl = 1
		}
		s.Pkts = append(s.Pkts, &PktSpec{Ver: 0xc0, Type: model.TypeAuthen, Seq: seq, Flags: flags, Session: sid, Body: contBody(fl, m, "")})
		if i == abortAt {
			break
		}
	}
	return s
}

func toArgs(xs []string) [][]byte {
	out := make([][]byte, len(xs))
	for i, x := range xs {
		out[i] = []byte(x)
	}
	return out
}

// SessAuthor is a single authorization request.
func SessAuthor(sid uint32, ver, flags uint8, user string, args []string) SessScript {
	return SessScript{Tag: "author", Pkts: []*PktSpec{{Ver: ver, Type: model.TypeAuthor, Seq: 1, Flags: flags, Session: sid,
		Body: BodySpec{Kind: model.KAuthorReq, N: []uint8{6, 1, 1, 1}, S: [][]byte{[]byte(user), []byte("tty0"), []byte("192.0.2.7")}, Args: toArgs(args)}}}}
}

// SessAcct is a single accounting request.
func SessAcct(sid uint32, ver, flags uint8, seq uint8, user string, acctFlags uint8, args []string) SessScript {
	return SessScript{Tag: "acct", Pkts: []*PktSpec{{Ver: ver, Type: model.TypeAcct, Seq: seq, Flags: flags, Session: sid,
		Body: BodySpec{Kind: model.KAcctReq, N: []uint8{acctFlags, 6, 1, 1, 1}, S: [][]byte{[]byte(user), []byte("tty0"), []byte("192.0.2.7")}, Args: toArgs(args)}}}}
}

// Interleave merges session scripts into one client op list: a tape-free, seed-chosen
// interleaving of their packets in which each packet is sent only after the reply to
// its session's previous packet has arrived (await-total counts replies on the
// connection; every request here is answered by exactly one reply).
func Interleave(r *Rand, scripts []SessScript, pipeline bool) []Op {
	if pipeline && r.Chance(25) {
		// full pipelining: every packet of every session is written before any reply is
		// read (the server still sees each session's packets in order)
		var ops []Op
		sends := 0
		next := make([]int, len(scripts))
		for {
			var live []int
			for i, s := range scripts {
				if next[i] < len(s.Pkts) {
					live = append(live, i)
				}
			}
			if len(live) == 0 {
				break
			}
			i := live[r.Intn(len(live))]
			ops = append(ops, Op{Kind: "send", Pkt: scripts[i].Pkts[next[i]], Sess: i + 1})
			next[i]++
			sends++
		}
		return append(ops, Op{Kind: "await-total", N: sends})
	}
	next := make([]int, len(scripts))
	lastSend := make([]int, len(scripts)) // 1-based send index of the session's previous packet
	var ops []Op
	sends := 0
	for {
		var live []int
		for i, s := range scripts {
			if next[i] < len(s.Pkts) {
				live = append(live, i)
			}
		}
		if len(live) == 0 {
			break
		}
		i := live[r.Intn(len(live))]
		if lastSend[i] > 0 {
			ops = append(ops, Op{Kind: "await-total", N: lastSend[i], Sess: i + 1})
		} else if !pipeline && sends > 0 {
			ops = append(ops, Op{Kind: "await-total", N: sends})
		}
		ops = append(ops, Op{Kind: "send", Pkt: scripts[i].Pkts[next[i]], Sess: i + 1})
		sends++
		lastSend[i] = sends
		next[i]++
	}
	ops = append(ops, Op{Kind: "await-total", N: sends})
	return ops
}

// ShiftSeq moves a session script up the sequence space: its first packet is numbered
// base (odd) instead of 1. Scripts that would pass 255 are left alone.
func ShiftSeq(s SessScript, base uint8) SessScript {
	last := int(s.Pkts[len(s.Pkts)-1].Seq) + int(base) - 1
	if base%2 == 0 || last > 255 {
		return s
	}
	for _, p := range s.Pkts {
		p.Seq += base - 1
	}
	return s
}

// RefPred is the model's expectation for one packet of a reference-server client.
type RefPred struct {
	Op   int
	H    model.Header
	Body []byte
	Exp  model.Expect
	Sess int
}

// RefAdmission evaluates admission of a client against a document.
func RefAdmission(d model.Doc, cs *ClientSpec) model.Admission {
	if cs.NonTCP || cs.Addr == "" {
		return d.Admit(nil, false, false)
	}
	host, _, err := net.SplitHostPort(cs.Addr)
	if err != nil {
		return d.Admit(nil, false, false)
	}
	ip := net.ParseIP(host)
	mapped := false
	for i := 0; i < len(host); i++ {
		if host[i] == ':' {
			mapped = ip.To4() != nil
			break
		}
	}
	return d.Admit(ip, true, mapped)
}

// PredictRef walks a client's script with the reference model of the server. The
// prediction stops (complete=false) at the first packet outside the modelled domain.
func PredictRef(d model.Doc, cs *ClientSpec) (adm model.Admission, preds []RefPred, complete bool) {
	adm = RefAdmission(d, cs)
	if !adm.Admit {
		return adm, nil, true
	}
	rc := model.NewRefConn(d, adm.Scope)
	srvKey := []byte(adm.Key)
	for i, op := range cs.Ops {
		switch op.Kind {
		case "raw", "reset":
			return adm, preds, false
		case "close":
			return adm, preds, true
		case "send":
			ps := op.Pkt
			if ps.Mangled() {
				return adm, preds, false
			}
			clear := ps.Body.Encode()
			h := model.Header{Version: ps.Ver, Type: ps.Type, Seq: ps.Seq, Flags: ps.Flags, Session: ps.Session, Length: uint32(len(clear))}
			key := cs.Key
			if ps.Key != nil {
				key = ps.Key
			}
			body := ServerView(h, clear, key, srvKey)
			obf := h.Flags&model.FlagUnencrypted == 0
			if obf && string(key) != string(srvKey) && !model.Mismatch(h.Type, body) {
				// wrong key without the mismatch signature: grey zone
				return adm, preds, false
			}
			e := rc.Step(h, body, obf)
			preds = append(preds, RefPred{Op: i, H: h, Body: body, Exp: e, Sess: op.Sess})
			if e.Verdict != "reply" {
				return adm, preds, e.Verdict != "unknown"
			}
		}
	}
	return adm, preds, true
}

// ---- request generators over a document ---------------------------------------------------

// DocUsers lists (name, password) pairs of the document's users; password "" when the
// user has no verifiable credential.
func DocUsers(d model.Doc) (names []string, pws map[string]string) {
	pws = map[string]string{}
	for _, u := range d.Users {
		names = append(names, u.Name)
		if a := u.EffAuth(); a != nil {
			pws[u.Name] = a.Password
		}
	}
	return
}

// ClientAddrFor picks an address for a client that lands in the given scope's prefix
// (or outside every prefix when scope < 0). Ports make every client address unique.
func ClientAddrFor(r *Rand, d model.Doc, scope int, idx int) string {
	var ip net.IP
	if scope >= 0 && scope < len(d.Secrets) && len(d.Secrets[scope].Prefixes) > 0 {
		ps := d.Secrets[scope].Prefixes
		ip = AddrIn(r, ps[r.Intn(len(ps))], false)
	} else {
		ip = net.IPv4(198, 51, 100, byte(1+r.Intn(200)))
	}
	return net.JoinHostPort(ip.String(), fmt.Sprint(40000+idx))
}

// GenAuthorArgs draws request arguments for an authorization.
func GenAuthorArgs(r *Rand, d model.Doc) []string {
	if r.Chance(55) {
		// command authorization
		args := []string{"service=shell"}
		cmd := PickOf(r, "show", "configure", "ping", "clear", "reload")
		args = append(args, "cmd="+cmd)
		n := r.Intn(3)
		for i := 0; i < n; i++ {
			w := PickOf(r, cmdArgWords...)
			args = append(args, "cmd-arg="+w)
		}
		if r.Chance(40) {
			args = append(args, "cmd-arg=<cr>")
		}
		if r.Chance(10) {
			// <cr> not last
			args = append(args, "cmd-arg="+PickOf(r, cmdArgWords...))
		} else if r.Chance(12) {
			// <cr> is the last cmd-arg but not the last argument of the request: it counts
			args = append(args, PickOf(r, "priv-lvl=15", "priv-lvl*1", "timeout=5", "service=shell"))
			if r.Chance(30) {
				args = append(args[1:], args[0])
			}
		}
		if r.Chance(8) {
			args[0] = PickOf(r, "service=ppp", "service*shell", " service=shell ")
		}
		if r.Chance(5) {
			args[1] = PickOf(r, "cmd*show", "cmd=", "cmd= show")
		}
		if r.Chance(5) {
			args[0], args[1] = args[1], args[0]
		}
		var out []string
		for _, a := range args {
			if len(a) >= 2 && len(a) <= 255 {
				out = append(out, a)
			}
		}
		return out
	}
	args := []string{PickOf(r, "service=shell", "service=ppp", "service=junos-exec", "service*shell", "service=exec", "cisco-av-pair*", "service=cisco-av-pair")}
	if r.Chance(50) {
		args = append(args, PickOf(r, "protocol=ip", "protocol=lcp", "protocol*ip"))
	}
	if r.Chance(50) {
		args = append(args, PickOf(r, "cmd=", "cmd*", "cmd*show"))
	}
	if r.Chance(15) {
		args = append(args, "scope="+PickOf(r, "sc0", "sc1", "evil"))
	}
	if r.Chance(15) {
		args = append(args, args[0])
	}
	if r.Chance(10) {
		args = append(args, PickOf(r, "shell=exec", "x=shell", "junos-exec*"))
	}
	return args
}

// GenAcctArgs draws accounting arguments over the whole ASCII range.
func GenAcctArgs(r *Rand) []string {
	n := r.Intn(5)
	if r.Chance(5) {
		n = 255
	}
	out := make([]string, n)
	for i := range out {
		l := r.Intn(24)
		if n > 50 {
			l = r.Intn(3)
		}
		b := make([]byte, l)
		for k := range b {
			switch r.Intn(6) {
			case 0:
				b[k] = PickOf(r, byte('%'), '"', '\\', '\'', '<', '>', '&', 0, 7, 10, 13, 27, 127, '=', '*')
			case 1:
				// text that already looks like an escape sequence of the record's encoding
				if esc := PickOf(r, "\\u003c", "\\u0026", "\\u003e", "\\n", "\\\""); k+len(esc) <= l {
					copy(b[k:], esc)
				} else {
					b[k] = byte(r.Intn(128))
				}
			default:
				b[k] = byte(r.Intn(128))
			}
		}
		out[i] = string(b)
	}
	return out
}

// hostileText draws a text field with formatting metacharacters.
func hostileText(r *Rand, base string) string {
	if r.Chance(30) {
		return base + PickOf(r, "%s", "%d", "100%\"", "%!x", "\\n", "\x00", "%v%v", "\"quoted\"", "a\tb", "\\u003c", "a \\u0026 b", "\\u003e", "<&>", "\\\\")
	}
	return base
}
