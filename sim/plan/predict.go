package plan

import (
	"bytes"

	"tqsim/model"
)

// Pred is what the model expects to happen to one packet of a client script.
type Pred struct {
	Kind    string // dispatch | terminate | badsecret | truncated | oversize
	Why     string
	Op      int
	H       model.Header
	Body    []byte // what the server should see after deobfuscation
	Handler int
	Step    HStep
	Spec    *PktSpec
	SameKey bool
	Offset  int // offset of the packet in the client's byte stream
	WireLen int
	// Lost: the transport refused the write of this packet's reply outright (set by the
	// oracle from the history): nothing of that reply may be on the wire
	Lost bool
	// expected reply
	Reply    bool
	ReplySeq uint8
}

// serverView computes the body the server sees after its own deobfuscation.
// ServerView computes the body the server sees after its own deobfuscation.
func ServerView(h model.Header, clear, cliKey, srvKey []byte) []byte {
	if h.Flags&model.FlagUnencrypted != 0 {
		return clear
	}
	wire := model.Obfuscate(h, cliKey, clear)
	return model.Obfuscate(h, srvKey, wire)
}

// predictConn walks a client's script with the session model. complete=false means the
// script leaves the modelled domain at some point (hostile bytes); preds then cover a
// prefix only.
// Predict walks a client script with the session model. complete=false means the
// script leaves the modelled domain at some point; preds then cover a prefix only.
func Predict(cs *ClientSpec) (preds []Pred, complete bool, closes bool, resets bool) {
	m := model.NewSessModel()
	inv := 0
	off := 0
	complete = true
	for i := range cs.Ops {
		op := cs.Ops[i]
		switch op.Kind {
		case "raw":
			return preds, false, closes, resets
		case "close":
			closes = true
			return preds, complete, closes, resets
		case "reset":
			resets = true
			return preds, complete, closes, resets
		case "send":
			ps := op.Pkt
			clear := ps.Body.Encode()
			h := model.Header{Version: ps.Ver, Type: ps.Type, Seq: ps.Seq, Flags: ps.Flags, Session: ps.Session, Length: uint32(len(clear))}
			key := cs.Key
			if ps.Key != nil {
				key = ps.Key
			}
			srvKey := cs.SrvKey
			if srvKey == nil {
				srvKey = []byte{}
			}
			wl := len(ps.Wire(cs.Key))
			off += len(cs.ProxyLine())
			pr := Pred{Op: i, H: h, Spec: ps, Offset: off, WireLen: wl, SameKey: bytes.Equal(key, srvKey)}
			off += wl
			if ps.FlipBit != nil {
				return preds, false, closes, resets
			}
			if ps.LenOverride != nil {
				if *ps.LenOverride > model.MaxBody && (ps.Trunc == nil || *ps.Trunc >= model.HeaderLen) {
					pr.Kind, pr.Why = "oversize", "length>65536"
					pr.H.Length = *ps.LenOverride
					preds = append(preds, pr)
					return preds, true, closes, resets
				}
				return preds, false, closes, resets
			}
			if ps.Trunc != nil && *ps.Trunc < model.HeaderLen+len(clear) {
				for _, o := range cs.Ops[i+1:] {
					if o.Kind == "send" || o.Kind == "raw" {
						// more bytes follow and complete the cut packet with something else:
						// outside the model from here on
						return preds, false, closes, resets
					}
				}
				pr.Kind, pr.Why = "truncated", "stream ends inside the packet"
				preds = append(preds, pr)
				// whatever follows is appended to the cut packet: outside the model
				return preds, i == len(cs.Ops)-1 || onlyCloseFollows(cs.Ops[i+1:]), closes || onlyCloseFollows(cs.Ops[i+1:]), resets
			}
			verdict, handler, why := m.Step(h)
			if verdict == model.Terminate {
				pr.Kind, pr.Why = "terminate", why
				preds = append(preds, pr)
				return preds, true, closes, resets
			}
			pr.Body = ServerView(h, clear, key, srvKey)
			if h.Flags&model.FlagUnencrypted == 0 {
				if model.Mismatch(h.Type, pr.Body) {
					pr.Kind, pr.Why = "badsecret", "key-mismatch signature"
					preds = append(preds, pr)
					return preds, true, closes, resets
				}
				if !pr.SameKey {
					// neither mismatch nor produced under the right key: grey zone
					return preds, false, closes, resets
				}
			}
			if ps.Body.Kind == "raw" && !WellFormedFor(h.Type, pr.Body) {
				// raw bytes that are not a well-formed request: grey zone
				return preds, false, closes, resets
			}
			pr.Kind = "dispatch"
			pr.Handler = handler
			if inv < len(cs.Handler) {
				pr.Step = cs.Handler[inv]
			} else if n := len(cs.Handler); n > 0 && cs.Handler[n-1].Next < 0 {
				pr.Step = cs.Handler[n-1]
			}
			inv++
			if pr.Step.Reply != nil && h.Seq == 255 && pr.Step.Reply.Kind == model.KAuthenReply && nthN(pr.Step.Reply.N, 0) == 6 {
				// RESTART in answer to request 255: the statement gives both "no reply
				// to 255" and "1 for RESTART" (ambiguity band): outside the model
				return preds, false, closes, resets
			}
			// the handler may call Reply several times (a first value the encoder refuses,
			// then a fallback): the effective reply is the first sendable one
			if len(pr.Step.Extra) > 0 {
				all := append([]BodySpec{}, pr.Step.Extra...)
				if pr.Step.Reply != nil {
					all = append([]BodySpec{*pr.Step.Reply}, all...)
				}
				nSendable := 0
				for i := range all {
					if all[i].Sendable() {
						nSendable++
						if nSendable == 1 {
							eff := all[i]
							pr.Step.Reply = &eff
						}
					}
				}
				if nSendable > 1 {
					return preds, false, closes, resets // several successful replies: handler misuse, outside the model
				}
			}
			replySeq := 0
			if pr.Step.Reply != nil && pr.Step.Reply.Sendable() && h.Seq != 255 {
				pr.Reply = true
				pr.ReplySeq = h.Seq + 1
				if pr.Step.Reply.Kind == model.KAuthenReply && nthN(pr.Step.Reply.N, 0) == 6 {
					pr.ReplySeq = 1
				}
				replySeq = int(pr.ReplySeq)
			}
			next := pr.Step.Next
			if next < 0 {
				next = 0
			}
			m.After(h, next, replySeq)
			preds = append(preds, pr)
		}
	}
	return preds, complete, closes, resets
}

func onlyCloseFollows(ops []Op) bool {
	for _, o := range ops {
		if o.Kind != "close" && o.Kind != "await" && o.Kind != "idle" {
			return false
		}
	}
	return true
}

func nthN(n []uint8, i int) uint8 {
	if i < len(n) {
		return n[i]
	}
	return 0
}

// wellFormedFor: does the body decode strictly under a request layout of the type?
func WellFormedFor(typ uint8, body []byte) bool {
	switch typ {
	case model.TypeAuthen:
		return model.DecodeErr(model.KAuthenStart, body) == nil || model.DecodeErr(model.KAuthenCont, body) == nil
	case model.TypeAuthor:
		return model.DecodeErr(model.KAuthorReq, body) == nil
	case model.TypeAcct:
		return model.DecodeErr(model.KAcctReq, body) == nil
	}
	return false
}
