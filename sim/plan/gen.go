package plan

import (
	"fmt"

	"tqsim/model"
	"tqsim/world"
)

// Generate derives the plan of run number `run` of a property's check from the seed.
func Generate(property string, seed uint64, run int, tier string) *Plan {
	rs := RunSeed(seed, property, run)
	r := NewRand(rs)
	p := &Plan{V: 1, Property: property, Seed: seed, Run: run, Mode: "serial", Build: "plain", MaxSteps: 4000}
	g, ok := generators[property]
	if !ok {
		return nil
	}
	thorough = tier == "thorough"
	g(r, p, tier)
	if p.Tape == nil {
		p.Tape = r.Tape(600)
	}
	if thorough {
		// deeper bounds: longer tapes (more scheduling freedom) and step budgets
		p.Tape = append(p.Tape, r.Tape(len(p.Tape))...)
		p.MaxSteps *= 2
	}
	return p
}

// thorough is set while a thorough-tier plan is being generated: generators widen their
// bounds (more connections, sessions, packets) through up().
var thorough bool

// up widens a bound in the thorough tier.
func up(n int) int {
	if thorough {
		return n + n/2 + 1
	}
	return n
}

var generators = map[string]func(r *Rand, p *Plan, tier string){}

func register(prop string, g func(r *Rand, p *Plan, tier string)) { generators[prop] = g }

// Properties lists the properties that have a generator.
func Properties() []string {
	var out []string
	for k := range generators {
		out = append(out, k)
	}
	return out
}

// ---- value generators ----------------------------------------------------------

var (
	actions  = []uint8{1, 2, 4}
	methods  = []uint8{0, 1, 2, 3, 4, 5, 6, 8, 0x10}
	authorSt = []uint8{1, 2, 0x10, 0x11}
)

func (r *Rand) text(n int) []byte { return r.ASCII(n) }

// lens draws k lengths whose sum stays under budget, each boundary biased under max.
func (r *Rand) lens(k, max, budget int) []int {
	out := make([]int, k)
	for i := range out {
		n := r.Len(max)
		if n > budget {
			n = budget
		}
		budget -= n
		out[i] = n
	}
	return out
}

// GenBody draws a representable value of the kind; big selects lengths over the whole
// wire width, otherwise fields stay small.
func GenBody(r *Rand, kind string, big bool) BodySpec {
	m8, m16 := 40, 60
	if big {
		m8, m16 = 255, 65535
	}
	b := BodySpec{Kind: kind}
	txt := func(n int) []byte { return r.text(n) }
	// text fields (not arguments) now and then begin or end with a blank, a tab or a NUL:
	// padding some devices send; such octets are part of the value like any other
	ftxt := func(n int) []byte {
		b := r.text(n)
		if n > 0 && r.Chance(8) {
			b[n-1] = PickOf(r, byte(' '), 0x00, '\t')
		}
		if n > 0 && r.Chance(4) {
			b[0] = PickOf(r, byte(' '), 0x00)
		}
		return b
	}
	args := func(min, maxN int) [][]byte {
		n := 0
		switch r.Intn(6) {
		case 0:
			n = 0
		case 1:
			n = 1
		case 2:
			if big {
				n = PickOf(r, 254, 255, 100)
			} else {
				n = 5
			}
		default:
			n = r.Intn(6)
		}
		if n > maxN {
			n = maxN
		}
		out := make([][]byte, n)
		budget := 20000
		for i := range out {
			l := min + r.Len(m8-min)
			if n > 50 {
				l = min + r.Intn(4)
			}
			if l > budget {
				l = min
			}
			budget -= l
			a := txt(l)
			if l >= 2 && r.Chance(60) {
				// attribute=value shape
				a[r.Intn(l-1)+1] = PickOf(r, byte('='), byte('*'))
			}
			out[i] = a
		}
		return out
	}
	switch kind {
	case model.KAuthenStart:
		typ := uint8(1 + r.Intn(6))
		l := r.lens(4, m8, 1000)
		data := ftxt(l[3])
		if typ != 1 && r.Chance(30) {
			data = r.Bytes(l[3]) // non-ASCII data is allowed unless the type is ASCII
		}
		b.N = []uint8{PickOf(r, actions...), uint8(r.Intn(16)), typ, uint8(r.Intn(10))}
		b.S = [][]byte{ftxt(l[0]), ftxt(l[1]), ftxt(l[2]), data}
	case model.KAuthenReply:
		l := r.lens(2, m16, 65530)
		b.N = []uint8{uint8(1 + r.Intn(7)), uint8(r.Intn(2))}
		if r.Chance(20) {
			b.N[1] = uint8(r.Intn(256))
		}
		b.S = [][]byte{r.Bytes(l[0]), r.Bytes(l[1])}
	case model.KAuthenCont:
		l := r.lens(2, m16, 65531)
		b.N = []uint8{uint8(r.Intn(2))}
		if r.Chance(20) {
			b.N[0] = uint8(r.Intn(256))
		}
		b.S = [][]byte{ftxt(l[0]), r.Bytes(l[1])}
	case model.KAuthorReq:
		l := r.lens(3, m8, 700)
		b.N = []uint8{PickOf(r, methods...), uint8(r.Intn(16)), uint8(r.Intn(7)), uint8(r.Intn(10))}
		b.S = [][]byte{ftxt(l[0]), ftxt(l[1]), ftxt(l[2])}
		b.Args = args(2, 255)
	case model.KAuthorReply:
		l := r.lens(2, m16, 40000)
		b.N = []uint8{PickOf(r, authorSt...)}
		b.S = [][]byte{ftxt(l[0]), ftxt(l[1])}
		b.Args = args(2, 255)
	case model.KAcctReq:
		l := r.lens(3, m8, 700)
		fl := PickOf(r, uint8(2), 4, 8, 0x0a, 0, 6, 1, 0x12, 0x80)
		if r.Chance(25) {
			fl = uint8(r.Intn(256)) &^ 8 // any octet without stop+watchdog contradiction
		}
		b.N = []uint8{fl, PickOf(r, methods...), uint8(r.Intn(16)), uint8(r.Intn(7)), uint8(r.Intn(10))}
		b.S = [][]byte{ftxt(l[0]), ftxt(l[1]), ftxt(l[2])}
		b.Args = args(0, 255)
	case model.KAcctReply:
		l := r.lens(2, m16, 65531)
		b.N = []uint8{uint8(1 + r.Intn(2))}
		b.S = [][]byte{ftxt(l[0]), ftxt(l[1])}
	}
	return b
}

// requestKinds / replyKind per packet type.
func requestKinds(typ uint8) []string {
	switch typ {
	case model.TypeAuthen:
		return []string{model.KAuthenStart, model.KAuthenCont}
	case model.TypeAuthor:
		return []string{model.KAuthorReq}
	default:
		return []string{model.KAcctReq}
	}
}

func replyKind(typ uint8) string {
	switch typ {
	case model.TypeAuthen:
		return model.KAuthenReply
	case model.TypeAuthor:
		return model.KAuthorReply
	default:
		return model.KAcctReply
	}
}

// bigBody returns a body of exactly n octets (n >= 5) as an authentication CONTINUE
// whose user message is filled at run time.
func bigBody(r *Rand, n int) BodySpec {
	return BodySpec{Kind: model.KAuthenCont, N: []uint8{0}, S: [][]byte{{}, {}}, Fill: n - 5, FillIdx: 0, FillSeed: r.U64()}
}

func (r *Rand) key() []byte {
	switch r.Intn(6) {
	case 0:
		return []byte{}
	case 1:
		return r.Bytes(1 + r.Intn(64))
	default:
		return []byte(r.Alnum(4 + r.Intn(20)))
	}
}

func (r *Rand) version() uint8 { return PickOf(r, uint8(0xc0), 0xc1) }

func (r *Rand) session() uint32 {
	switch r.Intn(8) {
	case 0:
		return 0
	case 1:
		return 0xffffffff
	case 2:
		return 1
	default:
		return r.U32()
	}
}

func (r *Rand) flags(any bool) uint8 {
	if any && r.Chance(40) {
		return uint8(r.Intn(256))
	}
	return PickOf(r, uint8(0), 0, 0, 1, 4, 5)
}

func clientAddr(i int) string { return fmt.Sprintf("10.%d.%d.%d:%d", 1+i/250, i%250, 7+i, 40000+i) }

// smallReply draws a small representable reply of the type's reply kind.
func smallReply(r *Rand, typ uint8) *BodySpec {
	b := GenBody(r, replyKind(typ), false)
	if b.Kind == model.KAuthenReply && nth(b.N, 0) == 6 {
		b.N[0] = 5 // RESTART is generated only where a scenario asks for it
	}
	return &b
}

// insertAwaits adds an await after each send whose reply the model predicts, with the
// given probability; otherwise requests are pipelined.
func insertAwaits(r *Rand, cs *ClientSpec, pct int) {
	preds, _, _, _ := Predict(cs)
	replyAt := map[int]bool{}
	for _, pr := range preds {
		if pr.Kind == "dispatch" && pr.Reply {
			replyAt[pr.Op] = true
		}
	}
	var ops []Op
	for i, op := range cs.Ops {
		ops = append(ops, op)
		if replyAt[i] && r.Chance(pct) {
			ops = append(ops, Op{Kind: "await", N: 1})
		}
	}
	cs.Ops = ops
}

// ---- C05: framing ------------------------------------------------------------------

func init() {
	register("C05", genC05)
	register("C06", genC06)
	register("C08", genC08)
}

// genC05shared: several connections receive large packets while their handlers are still
// holding earlier ones (parked): a receiver must hand out bodies nobody else writes to.
func genC05shared(r *Rand, p *Plan, tier string) {
	p.Family = "framing-concurrent"
	p.Scen.Server = "probe"
	n := 2 + r.Intn(2)
	for i := 0; i < n; i++ {
		key := r.key()
		cs := ClientSpec{Addr: clientAddr(i), Key: key, SrvKey: key, NotBefore: r.Intn(4)}
		for k := 0; k < 1+r.Intn(3); k++ {
			body := bigBody(r, PickOf(r, 4096, 4097, 5000, 8192, 20000, 300))
			cs.Ops = append(cs.Ops, Op{Kind: "send", Pkt: &PktSpec{Ver: 0xc0, Type: model.TypeAuthen, Seq: uint8(1 + 2*k), Flags: r.flags(false), Session: uint32(100*i + k), Body: body}})
			cs.Handler = append(cs.Handler, HStep{Park: r.Chance(70), Reply: smallReply(r, model.TypeAuthen)})
		}
		cs.Ops = append(cs.Ops, Op{Kind: "idle"})
		p.Scen.Clients = append(p.Scen.Clients, cs)
	}
	p.Park = []string{"handler"}
	if r.Bool() {
		p.Mode = "batch"
	}
	p.Tape = r.Tape(1500)
}

// genC05client: the library client as receiver: requests pipelined with SendOnly, the
// model server's replies coalesced and segmented by the tape, collected by later Sends.
func genC05client(r *Rand, p *Plan, tier string) {
	p.Family = "framing-client"
	p.Scen.Server = "none"
	cs := rcClient(r, 0, "C05")
	var sends []int
	for i, o := range cs.Ops {
		if o.Kind == "send" {
			sends = append(sends, i)
		}
	}
	// some requests go out without waiting for their reply; enough plain Sends follow
	nOnly := 0
	for _, i := range sends {
		if nOnly < len(sends)/2 && r.Chance(60) {
			cs.Ops[i].Pkt.Only = true
			nOnly++
		}
	}
	p.Scen.Clients = []ClientSpec{cs}
	p.Tape = r.Tape(1500)
	p.MaxSteps = 4000
}

func genC05(r *Rand, p *Plan, tier string) {
	if r.Chance(12) {
		genC05shared(r, p, tier)
		return
	}
	if r.Chance(8) {
		genC05client(r, p, tier)
		return
	}
	p.Family = "framing"
	p.Scen.Server = "probe"
	sub := r.Intn(10)
	nPk := 1 + r.Intn(up(12))
	key := r.key()
	cs := ClientSpec{Addr: clientAddr(0), Key: key, SrvKey: key}
	budget := 70000
	if tier == "thorough" {
		budget = 200000
	}
	for k := 0; k < nPk; k++ {
		typ := uint8(1 + r.Intn(3))
		var body BodySpec
		bk := r.Intn(8)
		if (sub == 3 || sub == 4) && bk == 0 {
			bk = 2 // paced runs: packets small enough for several to share one buffer fill
		}
		switch bk {
		case 0:
			n := PickOf(r, 65536, 65535, 65521, 4096, 107, 108, 95, 96)
			if n > budget {
				n = 300
			}
			typ = model.TypeAuthen
			body = bigBody(r, n)
		case 1:
			body = BodySpec{Kind: "raw", Raw: []byte{}} // empty body: grey for the handler, framing still applies
			body = GenBody(r, PickOf(r, requestKinds(typ)...), false)
		default:
			body = GenBody(r, PickOf(r, requestKinds(typ)...), r.Chance(30))
		}
		budget -= len(body.Encode())
		pk := &PktSpec{Ver: r.version(), Type: typ, Seq: uint8(1 + 2*r.Intn(127)), Flags: r.flags(false), Session: uint32(1000 + k)}
		pk.Body = body
		cs.Ops = append(cs.Ops, Op{Kind: "send", Pkt: pk})
		st := HStep{}
		if r.Chance(70) {
			st.Reply = smallReply(r, typ)
		}
		cs.Handler = append(cs.Handler, st)
	}
	switch sub {
	case 0: // oversize header, only the header is ever sent
		l := PickOf(r, uint32(65537), 65536+12, 1<<20, 1<<31, 0xffffffff, 70000)
		tr := model.HeaderLen
		cs.Ops = append(cs.Ops, Op{Kind: "send", Pkt: &PktSpec{Ver: r.version(), Type: uint8(1 + r.Intn(3)), Seq: 1, Flags: r.flags(false), Session: 7,
			Body: BodySpec{Kind: "raw", Raw: []byte{}}, LenOverride: &l, Trunc: &tr}})
		cs.Ops = append(cs.Ops, Op{Kind: "idle"})
	case 1: // stream ends inside the last packet
		last := cs.Ops[len(cs.Ops)-1].Pkt
		full := len(last.Wire(key))
		tr := r.Intn(full)
		if r.Chance(40) {
			tr = PickOf(r, 1, 11, 12, 13, full-1)
			if tr >= full || tr < 0 {
				tr = full - 1
			}
		}
		if full > 0 {
			last.Trunc = &tr
		}
		cs.Ops = append(cs.Ops, Op{Kind: "close"})
	case 2: // stall inside the last packet until the read deadline passes
		last := cs.Ops[len(cs.Ops)-1].Pkt
		full := len(last.Wire(key))
		tr := r.Intn(full)
		last.Trunc = &tr
		cs.Ops = append(cs.Ops, Op{Kind: "idle"})
	case 3: // paced: the clock runs while a pipelined stream trickles in; nothing stalls longer than the server allows a packet
		p.Scen.Stall = true
		cs.Ops = append(cs.Ops, Op{Kind: PickOf(r, "idle", "close")})
	case 4: // coalesced and paced by script: a packet arrives together with the first bytes of the
		// next one, late in its own waiting time; the rest follows well within the next
		// packet's waiting time, but later than the first packet's would have ended
		var ops []Op
		d1 := 1000 + r.Intn(13000)
		ops = append(ops, Op{Kind: "pace", N: d1})
		for k := 0; k < len(cs.Ops); k++ {
			ops = append(ops, cs.Ops[k])
			if k+1 < len(cs.Ops) && r.Chance(70) {
				ops = append(ops, cs.Ops[k+1])
				k++
				keep := 1 + r.Intn(len(cs.Ops[k].Pkt.Wire(key))-1)
				ops = append(ops, Op{Kind: "pace", N: 1000 + r.Intn(13000), Keep: keep})
			} else {
				ops = append(ops, Op{Kind: "pace", N: r.Intn(14000)})
			}
		}
		cs.Scripted = true
		cs.Ops = append(ops, Op{Kind: "pace"}, Op{Kind: PickOf(r, "idle", "close")})
	default:
		if r.Chance(50) {
			cs.Ops = append(cs.Ops, Op{Kind: "close"})
		}
	}
	if r.Chance(20) {
		cs.EOFData = true
	}
	if r.Chance(12) {
		// behind a proxying load balancer: the server runs in proxy mode and every packet
		// is preceded by an HA-proxy ASCII line
		p.Scen.Proxy, cs.Proxy = true, true
	}
	if sub == 3 || sub == 4 {
		insertAwaits(r, &cs, 0)
	} else {
		insertAwaits(r, &cs, PickOf(r, 0, 0, 50, 100))
	}
	p.Scen.Clients = []ClientSpec{cs}
	p.Tape = r.Tape(1500)
}

// ---- C06: replies mirror the request ---------------------------------------------------

func genC06(r *Rand, p *Plan, tier string) {
	p.Family = "mirror"
	p.Scen.Server = "probe"
	nCli := 1 + r.Intn(2)
	for ci := 0; ci < nCli; ci++ {
		key := r.key()
		cs := ClientSpec{Addr: clientAddr(ci), Key: key, SrvKey: key}
		nSess := 1 + r.Intn(4)
		type ss struct {
			id   uint32
			seq  int
			typ  uint8
			ver  uint8
			fl   uint8
			done bool
		}
		var sess []*ss
		for k := 0; k < nSess; k++ {
			start := 1
			if r.Chance(40) {
				start = 1 + 2*r.Intn(127)
			}
			if r.Chance(20) {
				start = PickOf(r, 251, 253, 255)
			}
			sess = append(sess, &ss{id: r.session() + uint32(k), seq: start, typ: uint8(1 + r.Intn(3)), ver: r.version(), fl: r.flags(true)})
		}
		deep := r.Chance(15)
		nPk := 1 + r.Intn(10)
		if deep {
			nPk = 130
			sess = sess[:1]
			sess[0].seq = 1
		}
		for k := 0; k < nPk; k++ {
			var live []*ss
			for _, s := range sess {
				if !s.done {
					live = append(live, s)
				}
			}
			if len(live) == 0 {
				break
			}
			s := live[r.Intn(len(live))]
			kind := PickOf(r, requestKinds(s.typ)...)
			body := GenBody(r, kind, r.Chance(15) && !deep)
			pk := &PktSpec{Ver: s.ver, Type: s.typ, Seq: uint8(s.seq), Flags: s.fl, Session: s.id, Body: body}
			cs.Ops = append(cs.Ops, Op{Kind: "send", Pkt: pk})
			st := HStep{Next: 1}
			rep := GenBody(r, replyKind(s.typ), r.Chance(10) && !deep)
			if rep.Kind == model.KAuthenReply && nth(rep.N, 0) == 6 {
				// RESTART: reply numbered 1, and (ambiguity band) no continuation
				st.Next = 0
				s.done = true
			}
			if r.Chance(5) {
				rep = GenBody(r, PickOf(r, model.KAuthenReply, model.KAuthorReply, model.KAcctReply), false)
				if rep.Kind == model.KAuthenReply && nth(rep.N, 0) == 6 {
					rep.N[0] = 1
				}
			}
			st.Reply = &rep
			if r.Chance(8) && s.seq < 255 && !(rep.Kind == model.KAuthenReply && nth(rep.N, 0) == 6) {
				// a first reply the encoder must refuse, then the real one
				bad := GenBodyWide(r, replyKind(s.typ))
				for tries := 0; bad.Sendable() && tries < 8; tries++ {
					bad = GenBodyWide(r, replyKind(s.typ))
				}
				if !bad.Sendable() {
					st.Reply = &bad
					st.Extra = []BodySpec{rep}
				}
			} else if r.Chance(12) && !(rep.Kind == model.KAuthenReply && nth(rep.N, 0) == 6) && s.seq < 255 {
				st.ViaWrite = true
				st.WrongLen = PickOf(r, uint32(0), 1, 5, 65536, uint32(r.Intn(300)))
			}
			if !deep && r.Chance(25) {
				st.Next = 0
				s.done = true
			}
			wrapNext := false
			if s.seq >= 255 {
				s.done = true
				if !deep && r.Chance(40) {
					// the handler still registers a continuation at 255: the session has used up
					// its numbers, whatever the client sends next on it must not be answered
					st.Next = 1
					wrapNext = true
				}
			}
			cs.Handler = append(cs.Handler, st)
			if wrapNext {
				pk2 := *pk
				pk2.Seq = PickOf(r, uint8(1), 3, 255, 253)
				cs.Ops = append(cs.Ops, Op{Kind: "send", Pkt: &pk2})
				cs.Handler = append(cs.Handler, HStep{Reply: smallReply(r, s.typ)})
			}
			s.seq += 2
		}
		extras := false
		for _, st := range cs.Handler {
			if len(st.Extra) > 0 {
				extras = true
			}
		}
		if !deep && !extras && r.Chance(10) {
			// a peer that stops reading for a while in the middle of the exchange: one reply's
			// write blocks while the clock runs, then goes through; the client pipelines
			cs.WFault = append(cs.WFault, WFaultAt(1+r.Intn(4), "park"))
			p.Scen.Stall = true
		} else if !deep && !extras && r.Chance(15) {
			// the transport refuses one write outright (nothing of it goes out); the client
			// pipelines, and every other reply must still be a whole, correct packet
			cs.WFault = append(cs.WFault, WFaultAt(1+r.Intn(6), "error"))
			p.Scen.Faulty = true
		} else {
			insertAwaits(r, &cs, PickOf(r, 0, 50, 100))
		}
		p.Scen.Clients = append(p.Scen.Clients, cs)
	}
	p.MaxSteps = 6000
	p.Tape = r.Tape(1500)
}

// ---- C08: sequence numbers and session retention ----------------------------------------

// genC08many: hundreds of sessions open on one connection at the same time (a busy
// single-connect device); the late ones are continued, or replayed, like any other.
func genC08many(r *Rand, p *Plan, tier string) {
	p.Family = "sequence-many-open"
	p.Scen.Server = "probe"
	key := r.key()
	cs := ClientSpec{Addr: clientAddr(0), Key: key, SrvKey: key}
	n := PickOf(r, 255, 256, 257, 258, 270, 300)
	typ := uint8(1 + r.Intn(3))
	kind := PickOf(r, requestKinds(typ)...)
	for i := 0; i < n; i++ {
		cs.Ops = append(cs.Ops, Op{Kind: "send", Pkt: &PktSpec{Ver: 0xc0, Type: typ, Seq: 1, Session: uint32(7000 + i), Body: GenBody(r, kind, false)}})
		cs.Handler = append(cs.Handler, HStep{Reply: smallReply(r, typ), Next: 1 + r.Intn(3)})
	}
	// follow-ups of late sessions, then a replayed number on one of them
	for k := 0; k < 3; k++ {
		i := n - 1 - r.Intn(6)
		if i < 0 {
			i = 0
		}
		seq := uint8(3 + 2*k)
		if k == 2 && r.Bool() {
			seq = 1
		}
		cs.Ops = append(cs.Ops, Op{Kind: "send", Pkt: &PktSpec{Ver: 0xc0, Type: typ, Seq: seq, Session: uint32(7000 + i), Body: GenBody(r, kind, false)}})
		cs.Handler = append(cs.Handler, HStep{Reply: smallReply(r, typ), Next: 1})
	}
	cs.Ops = append(cs.Ops, Op{Kind: "idle"})
	p.Scen.Clients = []ClientSpec{cs}
	p.Tape = r.Tape(1500)
	p.MaxSteps = 8000
}

func genC08(r *Rand, p *Plan, tier string) {
	if r.Chance(2) {
		genC08many(r, p, tier)
		return
	}
	p.Family = "sequence"
	p.Scen.Server = "probe"
	key := r.key()
	cs := ClientSpec{Addr: clientAddr(0), Key: key, SrvKey: key}
	nSess := 1 + r.Intn(3)
	ids := make([]uint32, nSess)
	cur := make([]int, nSess) // last sequence number the client used (0 = none)
	typ := make([]uint8, nSess)
	for i := range ids {
		ids[i] = uint32(100 + i)
		if r.Chance(20) {
			ids[i] = r.session()
		}
		typ[i] = uint8(1 + r.Intn(3))
	}
	nPk := 2 + r.Intn(up(12))
	wrap := r.Chance(20) // drive a session to the top of the sequence space
	for k := 0; k < nPk; k++ {
		s := r.Intn(nSess)
		var seq int
		switch c := r.Intn(20); {
		case c < 10: // next odd number
			seq = cur[s] + 2
			if cur[s] == 0 {
				seq = 1
			}
		case c == 10: // replay
			seq = cur[s]
		case c == 11: // even
			seq = cur[s] + 1
		case c == 12: // decrease
			seq = cur[s] - 2
		case c == 13: // jump
			seq = cur[s] + 2*(1+r.Intn(20))
		case c == 14:
			seq = 2 * r.Intn(128)
		case c == 15:
			seq = 1 + 2*r.Intn(128)
		default:
			seq = cur[s] + 2
		}
		if wrap && k < 4 {
			seq = PickOf(r, 251, 253, 255, 255, 1, 3)
			if k == 0 {
				seq = PickOf(r, 251, 253)
			}
		}
		if seq < 0 {
			seq = 0
		}
		if seq > 255 {
			seq = PickOf(r, 255, 1, 3, 0)
		}
		cur[s] = seq
		kind := PickOf(r, requestKinds(typ[s])...)
		pk := &PktSpec{Ver: r.version(), Type: typ[s], Seq: uint8(seq), Flags: r.flags(false), Session: ids[s], Body: GenBody(r, kind, false)}
		cs.Ops = append(cs.Ops, Op{Kind: "send", Pkt: pk})
		st := HStep{}
		if r.Chance(60) {
			st.Next = 1 + r.Intn(3)
		}
		if r.Chance(85) {
			st.Reply = smallReply(r, typ[s])
		}
		cs.Handler = append(cs.Handler, st)
	}
	insertAwaits(r, &cs, PickOf(r, 0, 100))
	if r.Chance(30) {
		cs.Ops = append(cs.Ops, Op{Kind: "close"})
	}
	if r.Chance(15) {
		// a reply is lost to a transport fault: the session table must not care
		cs.WFault = append(cs.WFault, WFaultAt(1+r.Intn(3), PickOf(r, "error", "error", "short")))
		p.Scen.Faulty = true
		var ops []Op
		for _, o := range cs.Ops {
			if o.Kind != "await" {
				ops = append(ops, o) // the lost reply would never arrive: pipeline instead
			}
		}
		cs.Ops = ops
	}
	p.Scen.Clients = []ClientSpec{cs}
	p.Tape = r.Tape(800)
}

// ---- C17: shutdown and read deadlines ------------------------------------------------------

func init() {
	register("C17", genC17)
	register("C20", genC20)
}

// probeClient builds a client for the probe server with nPk packets in distinct or
// continued sessions; state selects where the connection is left.
func probeClient(r *Rand, idx int, nPk int, state string) ClientSpec {
	key := r.key()
	cs := ClientSpec{Addr: clientAddr(idx), Key: key, SrvKey: key}
	seqOf := map[uint32]int{}
	for k := 0; k < nPk; k++ {
		typ := uint8(1 + r.Intn(3))
		sid := uint32(500 + r.Intn(3))
		seq := seqOf[sid] + 2
		if seqOf[sid] == 0 {
			seq = 1
			if r.Chance(30) {
				seq = 1 + 2*r.Intn(127) // sessions may start anywhere in the sequence space
			}
		}
		if seq > 255 {
			seq = 255
		}
		seqOf[sid] = seq
		pk := &PktSpec{Ver: r.version(), Type: typ, Seq: uint8(seq), Flags: r.flags(false), Session: sid, Body: GenBody(r, PickOf(r, requestKinds(typ)...), false)}
		cs.Ops = append(cs.Ops, Op{Kind: "send", Pkt: pk})
		st := HStep{Reply: smallReply(r, typ)}
		if r.Chance(50) {
			st.Next = 1
		} else {
			seqOf[sid] = 0
		}
		if r.Chance(20) {
			st.Park = true
		}
		cs.Handler = append(cs.Handler, st)
	}
	insertAwaits(r, &cs, PickOf(r, 0, 100))
	switch state {
	case "idle":
		cs.Ops = append(cs.Ops, Op{Kind: "idle"})
	case "mid-header":
		tr := 1 + r.Intn(11)
		cs.Ops = append(cs.Ops, Op{Kind: "send", Pkt: &PktSpec{Ver: 0xc0, Type: 1, Seq: 1, Session: 9000, Body: GenBody(r, model.KAuthenStart, false), Trunc: &tr}}, Op{Kind: "idle"})
	case "mid-body":
		pk := &PktSpec{Ver: 0xc0, Type: 1, Seq: 1, Session: 9001, Body: GenBody(r, model.KAuthenStart, true)}
		full := len(pk.Wire(key))
		tr := 12 + r.Intn(full-12+1)
		if tr >= full {
			tr = full - 1
		}
		pk.Trunc = &tr
		cs.Ops = append(cs.Ops, Op{Kind: "send", Pkt: pk}, Op{Kind: "idle"})
	case "close":
		cs.Ops = append(cs.Ops, Op{Kind: "close"})
	case "reset":
		cs.Ops = append(cs.Ops, Op{Kind: "reset"})
	}
	return cs
}

func genC17(r *Rand, p *Plan, tier string) {
	if r.Chance(25) {
		genC17ref(r, p, tier)
		return
	}
	p.Family = "shutdown"
	p.Scen.Server = "probe"
	p.Scen.Stall = r.Chance(70)
	if r.Chance(35) {
		p.Mode = "batch"
	}
	n := r.Intn(up(7))
	proxy := r.Chance(15) // the server sits behind a proxying load balancer
	p.Scen.Proxy = proxy
	for i := 0; i < n; i++ {
		cs := probeClient(r, i, r.Intn(up(4)), PickOf(r, "idle", "idle", "mid-header", "mid-body", "close", "reset"))
		cs.Proxy = proxy
		if proxy && r.Chance(25) {
			// a connection that stops inside (or before) the proxy line of its next packet
			line := cs.ProxyLine()
			for n := len(cs.Ops); n > 0 && (cs.Ops[n-1].Kind == "idle" || cs.Ops[n-1].Kind == "close" || cs.Ops[n-1].Kind == "reset" || (cs.Ops[n-1].Kind == "send" && cs.Ops[n-1].Pkt.Trunc != nil)); n = len(cs.Ops) {
				cs.Ops = cs.Ops[:n-1]
			}
			cs.Ops = append(cs.Ops, Op{Kind: "raw", Raw: line[:r.Intn(len(line))]}, Op{Kind: "idle"})
		}
		cs.NotBefore = r.Intn(25)
		if r.Chance(15) {
			cs.WFault = append(cs.WFault, WFaultAt(1+r.Intn(3), "park"))
		}
		if r.Chance(5) {
			cs.Refuse = true
		}
		p.Scen.Clients = append(p.Scen.Clients, cs)
	}
	// control events: cancellation, accept faults, listener close
	if r.Chance(85) {
		p.Scen.Ctl = append(p.Scen.Ctl, Ctl{Kind: "cancel", NotBefore: r.Intn(60)})
	}
	for k := r.Intn(3); k > 0; k-- {
		p.Scen.Ctl = append(p.Scen.Ctl, Ctl{Kind: "accept-fault", Arg: PickOf(r, "temp", "temp", "plain", "fatal"), NotBefore: r.Intn(40)})
	}
	if r.Chance(10) {
		p.Scen.Ctl = append(p.Scen.Ctl, Ctl{Kind: "close-listener", NotBefore: r.Intn(60)})
	}
	if r.Chance(50) {
		p.Park = append(p.Park, "handler")
	}
	if r.Chance(20) {
		p.Park = append(p.Park, PickOf(r, "log:context cancellation", "log:[%v] sessionID is complete", "log:Stopping server listener", "log:waiting for", "provider", "conn-close", "conn-close"))
	}
	p.Tape = r.Tape(1500)
	p.MaxSteps = 1500
}

// WFaultAt is a small constructor (keeps generators readable).
func WFaultAt(at int, kind string) world.WriteFault { return world.WriteFault{At: at, Kind: kind} }

// ---- C20: gauges ---------------------------------------------------------------------------

// genC20many: hundreds of sessions waiting on one connection, most of them abandoned when the
// connection closes, is reset, idles out or the server is stopped; every one was counted.
func genC20many(r *Rand, p *Plan, tier string) {
	p.Family = "gauges-many-open"
	p.Scen.Server = "probe"
	key := r.key()
	cs := ClientSpec{Addr: clientAddr(0), Key: key, SrvKey: key}
	n := PickOf(r, 255, 257, 270, 300, 520)
	typ := uint8(1 + r.Intn(3))
	kind := PickOf(r, requestKinds(typ)...)
	for i := 0; i < n; i++ {
		cs.Ops = append(cs.Ops, Op{Kind: "send", Pkt: &PktSpec{Ver: 0xc0, Type: typ, Seq: 1, Session: uint32(7000 + i), Body: GenBody(r, kind, false)}})
		cs.Handler = append(cs.Handler, HStep{Reply: smallReply(r, typ), Next: 1})
	}
	// a few of them are completed, early and late ones
	for k := 0; k < r.Intn(4); k++ {
		i := r.Intn(n)
		if r.Bool() {
			i = r.Intn(8)
		}
		cs.Ops = append(cs.Ops, Op{Kind: "send", Pkt: &PktSpec{Ver: 0xc0, Type: typ, Seq: 3, Session: uint32(7000 + i), Body: GenBody(r, kind, false)}})
		cs.Handler = append(cs.Handler, HStep{Reply: smallReply(r, typ)})
	}
	cs.Ops = append(cs.Ops, Op{Kind: PickOf(r, "close", "reset", "idle", "close")})
	p.Scen.Clients = []ClientSpec{cs}
	if r.Chance(30) {
		p.Scen.Ctl = append(p.Scen.Ctl, Ctl{Kind: "cancel", NotBefore: 5 + r.Intn(60)})
	}
	p.Tape = r.Tape(1500)
	p.MaxSteps = 12000
}

func genC20(r *Rand, p *Plan, tier string) {
	if r.Chance(3) {
		genC20many(r, p, tier)
		return
	}
	p.Family = "gauges"
	p.Scen.Server = "probe"
	n := 1 + r.Intn(up(5))
	for i := 0; i < n; i++ {
		var cs ClientSpec
		switch r.Intn(8) {
		case 0: // refused at admission
			cs = probeClient(r, i, 1, "idle")
			cs.Refuse = true
		case 1: // first packet with an even number
			cs = probeClient(r, i, 0, "")
			cs.Ops = []Op{{Kind: "send", Pkt: &PktSpec{Ver: 0xc0, Type: 1, Seq: uint8(2 * r.Intn(100)), Session: 77, Body: GenBody(r, model.KAuthenStart, false)}}, {Kind: "idle"}}
		case 2: // key mismatch
			cs = probeClient(r, i, 1+r.Intn(2), "idle")
			cs.Key = []byte("another-key-" + r.Alnum(6))
		case 3: // sequence violation after some good packets
			cs = probeClient(r, i, 1+r.Intn(3), "")
			bad := *cs.Ops[0].Pkt
			cs.Ops = append(cs.Ops, Op{Kind: "send", Pkt: &bad}, Op{Kind: "idle"})
		case 4: // a session that uses up its sequence numbers with a continuation pending, then goes on
			cs = probeClient(r, i, 0, "")
			st := uint8(PickOf(r, 251, 253, 255))
			var ops []Op
			var hs []HStep
			for q := int(st); q <= 255; q += 2 {
				ops = append(ops, Op{Kind: "send", Pkt: &PktSpec{Ver: 0xc0, Type: 1, Seq: uint8(q), Session: 4242, Body: GenBody(r, model.KAuthenCont, false)}})
				hs = append(hs, HStep{Reply: smallReply(r, 1), Next: 1})
			}
			ops = append(ops, Op{Kind: "send", Pkt: &PktSpec{Ver: 0xc0, Type: 1, Seq: PickOf(r, uint8(1), 3, 255), Session: 4242, Body: GenBody(r, model.KAuthenCont, false)}})
			hs = append(hs, HStep{Reply: smallReply(r, 1)})
			cs.Ops = append(ops, Op{Kind: PickOf(r, "idle", "close")})
			cs.Handler = hs
		default: // completed and abandoned sessions, then close, reset or stay
			cs = probeClient(r, i, 1+r.Intn(5), PickOf(r, "close", "reset", "idle", "mid-body", "close"))
		}
		for k := range cs.Handler {
			cs.Handler[k].Park = false
		}
		cs.NotBefore = r.Intn(15)
		p.Scen.Clients = append(p.Scen.Clients, cs)
	}
	if r.Chance(40) {
		p.Scen.Ctl = append(p.Scen.Ctl, Ctl{Kind: "cancel", NotBefore: 5 + r.Intn(60)})
	}
	if r.Chance(30) {
		p.Scen.Sibling = 1 + r.Intn(3)
	}
	p.Tape = r.Tape(1200)
	p.MaxSteps = 1500
}
