package plan

import (
	"fmt"
	"net"

	"tqsim/model"
)

func init() {
	register("C07", func(r *Rand, p *Plan, t string) { genRef(r, p, t, "C07") })
	register("C10", func(r *Rand, p *Plan, t string) {
		if r.Chance(8) {
			genReloadE2E(r, p, t, r.Chance(50))
			return
		}
		genRef(r, p, t, "C10")
	})
	register("C11", func(r *Rand, p *Plan, t string) {
		if r.Chance(10) {
			// rights removed by a reload must be gone for connections that arrive afterwards
			genReloadE2E(r, p, t, false)
			return
		}
		genRef(r, p, t, "C11")
	})
	register("C12", func(r *Rand, p *Plan, t string) {
		if r.Chance(12) {
			genSyslogDirect(r, p, t)
			return
		}
		genRef(r, p, t, "C12")
	})
	register("C13", func(r *Rand, p *Plan, t string) {
		if r.Chance(10) {
			genConcurrentAdmission(r, p, t)
			return
		}
		if r.Chance(6) {
			genReloadE2E(r, p, t, true)
			return
		}
		genRef(r, p, t, "C13")
	})
	register("C18", func(r *Rand, p *Plan, t string) { genRef(r, p, t, "C18") })
	register("C19", func(r *Rand, p *Plan, t string) { genRef(r, p, t, "C19") })
}

type refGen struct {
	r     *Rand
	d     model.Doc
	names []string
	pws   map[string]string
	sid   uint32
}

func (g *refGen) nextSid() uint32 { g.sid++; return g.sid }

// pickUser returns a user name: usually one of the scope's users, sometimes one of
// another scope, sometimes unknown or empty.
func (g *refGen) pickUser(scope string) string {
	r := g.r
	var in, out []string
	for _, u := range g.d.Users {
		has := false
		for _, s := range u.Scopes {
			if s == scope {
				has = true
			}
		}
		if has {
			in = append(in, u.Name)
		} else {
			out = append(out, u.Name)
		}
	}
	switch c := r.Intn(10); {
	case c < 7 && len(in) > 0:
		return in[r.Intn(len(in))]
	case c < 8 && len(out) > 0:
		return out[r.Intn(len(out))]
	case c == 8:
		return "nobody" + r.Alnum(2)
	}
	if len(in) > 0 {
		return in[r.Intn(len(in))]
	}
	return ""
}

// password for a login attempt: right, wrong (another user's), or empty.
func (g *refGen) pickPw(user string) string {
	r := g.r
	right := g.pws[user]
	switch c := r.Intn(10); {
	case c < 6 && right != "":
		return right
	case c < 9:
		return PwPool[r.Intn(len(PwPool))].Pw
	}
	return ""
}

func (g *refGen) authenSess(scope string, flags uint8) SessScript {
	r := g.r
	user := g.pickUser(scope)
	pw := g.pickPw(user)
	switch c := r.Intn(20); {
	case c < 6:
		return SessPAP(g.nextSid(), 0xc1, flags, user, pw)
	case c < 12:
		abort := -1
		if r.Chance(12) {
			abort = r.Intn(2)
		}
		if abort < 0 && len(user) > 0 && len(user) < 250 && r.Chance(15) {
			// what a terminal may send along with the name: nobody is called that, so the
			// owner's password opens nothing
			padded := PickOf(r, user+"\r\n", user+"\n", " "+user, user+" ", user+"\t", "\t"+user+"\r")
			s := SessASCII(g.nextSid(), flags, padded, pw, r.Bool(), -1)
			s.Tag = "ascii-padded-user"
			return s
		}
		return SessASCII(g.nextSid(), flags, user, pw, r.Bool(), abort)
	case c == 12: // PAP with the wrong minor version
		return SessPAP(g.nextSid(), 0xc0, flags, user, pw)
	case c == 13: // arbitrary action/type/service/minor combination carrying a password
		s := SessPAP(g.nextSid(), r.version(), flags, user, pw)
		b := &s.Pkts[0].Body
		b.N = []uint8{PickOf(r, actions...), uint8(r.Intn(16)), uint8(1 + r.Intn(6)), uint8(r.Intn(10))}
		s.Tag = "start-variant"
		return s
	case c == 14: // CONTINUE sent to a fresh session
		sid := g.nextSid()
		return SessScript{Tag: "stray-continue", Pkts: []*PktSpec{{Ver: 0xc0, Type: model.TypeAuthen, Seq: 1, Flags: flags, Session: sid, Body: contBody(0, pw, "")}}}
	case c == 15: // START sent mid-exchange
		s := SessASCII(g.nextSid(), flags, user, pw, true, -1)
		extra := *s.Pkts[0]
		extra.Seq = 3
		if r.Chance(60) {
			// a START-shaped packet at the password step whose data is the password (and
			// whose user may be anybody): still out of place, never a login
			eb := startBody(1, PickOf(r, uint8(1), 2), 1, PickOf(r, user, "nobody"+r.Alnum(2), ""), "tty0", "192.0.2.7", pw)
			extra.Body = eb
		}
		s.Pkts = []*PktSpec{s.Pkts[0], &extra}
		s.Tag = "start-mid-exchange"
		return s
	case c == 16: // ASCII login at the boundary lengths of the START layout
		s := SessASCII(g.nextSid(), flags, user, pw, true, -1)
		b := &s.Pkts[0].Body
		b.S[1] = r.text(PickOf(r, 127, 127, 255, 1, 126))
		b.S[2] = r.text(PickOf(r, 127, 127, 255, 2))
		b.S[3] = r.text(PickOf(r, 0, 20, 127, 255))
		if r.Chance(40) {
			// an (unknown) user with a name as long as the length octet allows
			pad := PickOf(r, 255, 254, 131, 132) - len(user)
			if pad < 0 {
				pad = 0
			}
			b.S[0] = []byte(user + r.Alnum(pad))
			if len(b.S[0]) > 255 {
				b.S[0] = b.S[0][:255]
			}
		}
		s.Tag = "ascii-boundary"
		return s
	case c == 19 && r.Chance(40): // a user name as long as the CONTINUE's 16-bit field allows (nobody by that name)
		long := "x" + r.Alnum(PickOf(r, 300, 4000, 65000, 65505, 65510, 65520, 65530))
		s := SessASCII(g.nextSid(), flags, long, pw, false, -1)
		s.Tag = "ascii-long-user"
		return s
	case c == 17 && r.Chance(50): // nothing typed at the password prompt, but something in the data field
		s := SessASCII(g.nextSid(), flags, user, "", true, -1)
		s.Pkts[len(s.Pkts)-1].Body = contBody(0, "", PickOf(r, "x", "\x00", pw))
		s.Tag = "ascii-empty-password-with-data"
		return s
	case c == 19: // a very long password with octets above 0x7f (whatever the server says about it must still fit a reply)
		s := SessASCII(g.nextSid(), flags, user, "\xc3\xa4"+r.Alnum(PickOf(r, 2000, 65400, 65420, 65500, 65525)), r.Bool(), -1)
		s.Tag = "ascii-long-password"
		return s
	case c == 18: // a password with an octet above 0x7f (the CONTINUE is hand-encoded by the peer)
		return SessASCII(g.nextSid(), flags, user, pw+"\xc3\xa4", r.Bool(), -1)
	case c == 17: // empty user / empty password PAP
		return SessPAP(g.nextSid(), 0xc1, flags, PickOf(r, "", user), PickOf(r, "", pw))
	default:
		return SessASCII(g.nextSid(), flags, user, pw, r.Bool(), -1)
	}
}

func (g *refGen) authorSess(scope string, flags uint8) SessScript {
	user := g.pickUser(scope)
	return SessAuthor(g.nextSid(), g.r.version(), flags, user, GenAuthorArgs(g.r, g.d))
}

func (g *refGen) acctSess(scope string, flags uint8, hostile bool) SessScript {
	r := g.r
	user := g.pickUser(scope)
	af := PickOf(r, uint8(2), 4, 8, 0x0a, 2, 4)
	if r.Chance(12) {
		af = uint8(r.Intn(256))
	}
	seq := uint8(1)
	if r.Chance(30) {
		seq = uint8(1 + 2*r.Intn(100))
	}
	s := SessAcct(g.nextSid(), r.version(), flags, seq, user, af, GenAcctArgs(r))
	if hostile {
		b := &s.Pkts[0].Body
		b.S[1] = []byte(hostileText(r, "tty"))
		b.S[2] = []byte(hostileText(r, "addr"))
	}
	if seq < 250 && r.Chance(25) {
		// a later record in the same session (watchdog update, stop), also one that names
		// somebody else: every record is judged on the user it names
		u2 := user
		if r.Chance(60) {
			u2 = g.pickUser(scope)
		}
		if r.Chance(25) {
			u2 = "nobody" + r.Alnum(2)
		}
		f := SessAcct(s.Pkts[0].Session, s.Pkts[0].Ver, flags, seq+2, u2, PickOf(r, uint8(0x0a), 4, 8, 2), GenAcctArgs(r))
		s.Pkts = append(s.Pkts, f.Pkts[0])
	}
	return s
}

func genRef(r *Rand, p *Plan, tier string, focus string) {
	p.Family = "ref-" + focus
	p.Scen.Server = "ref"
	p.Scen.Format = PickOf(r, "yaml", "yaml", "json")
	o := DocOpts{Filters: false, Overlap: false, Keychain: false, OddAuth: false, V6: false, InvalidRegex: focus == "C11" || focus == "C07"}
	switch focus {
	case "C13":
		o.Filters, o.Overlap, o.V6 = true, true, true
		o.OddScopes = r.Chance(30)
		o.Span = r.Chance(40)
		o.DupUsers = r.Chance(40)
	case "C07":
		o.OddAuth = r.Chance(30)
		o.Keychain = true
	case "C10", "C18":
		o.DupUsers = focus == "C10" && r.Chance(30)
		o.EmptyPw = focus == "C10" && r.Chance(40)
		o.Keychain = true
		o.OddAuth = r.Chance(15)
		o.OddScopes = focus == "C18" && r.Chance(50)
	}
	d := GenDoc(r, o)
	d.Normalize()
	g := &refGen{r: r, d: d, sid: uint32(r.Intn(1 << 20))}
	g.names, g.pws = DocUsers(d)
	p.Scen.Docs = []model.Doc{d}
	// swarm: a minority of runs inject transport faults and let the clock run ahead of
	// the clients (completeness clauses are off in those runs, soundness stays on)
	faulty := r.Chance(15) && focus != "C13"
	if faulty {
		p.Scen.Faulty = true
		p.Scen.Stall = r.Chance(40)
		p.Family += "-faulty"
		if p.Scen.Stall && r.Chance(60) {
			// a slow backend: the handler sits at a seam while the clock runs
			p.Park = append(p.Park, PickOf(r, "keychain", "sink", "log:record", "log:accepting user", "log:detected user"))
			if focus == "C07" && r.Chance(40) {
				// the server is told to stop while a handler is still busy with a request it
				// accepted: that request is still owed its reply
				p.Scen.Ctl = append(p.Scen.Ctl, Ctl{Kind: "cancel", NotBefore: 4 + r.Intn(40)})
			}
		}
	}
	nCli := 1 + r.Intn(up(3))
	if focus == "C13" {
		nCli = 2 + r.Intn(up(4))
	}
	for ci := 0; ci < nCli; ci++ {
		scopeIdx := r.Intn(len(d.Secrets))
		cs := ClientSpec{}
		cs.Addr = ClientAddrFor(r, d, scopeIdx, ci)
		if focus == "C13" {
			cs.Addr, cs.NonTCP = c13Addr(r, d, ci)
		}
		adm := RefAdmission(d, &cs)
		scope := adm.Scope
		cs.Key = []byte(adm.Key)
		wrongKey := false
		if !adm.Admit {
			cs.Key = []byte(d.Secrets[scopeIdx].Secret.Key)
		}
		switch focus {
		case "C19":
			if r.Chance(60) {
				wrongKey = true
			}
		case "C13":
			if r.Chance(15) && len(d.Secrets) > 1 {
				wrongKey = true
			}
		case "C07":
			wrongKey = r.Chance(8)
		case "C18":
			wrongKey = r.Chance(12) // the key-mismatch path logs too
		}
		if wrongKey {
			other := d.Secrets[r.Intn(len(d.Secrets))].Secret.Key
			if other == adm.Key {
				other = r.token("W")
			}
			cs.Key = []byte(other)
		}
		flags := uint8(0)
		if r.Chance(15) {
			flags = PickOf(r, uint8(1), 4, 5)
		}
		if focus == "C19" && r.Chance(25) {
			flags = 1 // clear flag with a wrong key: must never be flagged
		}
		nSess := 1 + r.Intn(up(4))
		var scripts []SessScript
		for k := 0; k < nSess; k++ {
			var s SessScript
			if focus == "C19" && r.Chance(20) {
				// the smallest legal requests: every variable field empty
				switch r.Intn(4) {
				case 0:
					s = SessAuthor(g.nextSid(), r.version(), flags, "", nil)
					s.Pkts[0].Body.S = [][]byte{{}, {}, {}}
				case 1:
					s = SessPAP(g.nextSid(), 0xc1, flags, "", "")
					s.Pkts[0].Body.S = [][]byte{{}, {}, {}, {}}
				case 2:
					s = SessAcct(g.nextSid(), r.version(), flags, 1, "", 2, nil)
					s.Pkts[0].Body.S = [][]byte{{}, {}, {}}
				default:
					s = SessScript{Tag: "min-continue", Pkts: []*PktSpec{{Ver: 0xc0, Type: model.TypeAuthen, Seq: 1, Flags: flags, Session: g.nextSid(), Body: contBody(0, "", "")}}}
				}
				scripts = append(scripts, s)
				continue
			}
			switch focus {
			case "C10", "C18":
				s = g.authenSess(scope, flags)
			case "C11":
				s = g.authorSess(scope, flags)
			case "C12":
				s = g.acctSess(scope, flags, true)
			case "C13":
				u := g.pickUser(scope)
				if r.Chance(35) && len(g.names) > 0 {
					u = g.names[r.Intn(len(g.names))] // any user of the document, whatever its scopes
				}
				s = SessPAP(g.nextSid(), 0xc1, flags, u, g.pws[u])
			default:
				switch r.Intn(3) {
				case 0:
					s = g.authenSess(scope, flags)
				case 1:
					s = g.authorSess(scope, flags)
				default:
					s = g.acctSess(scope, flags, r.Chance(30))
				}
			}
			if focus == "C19" && r.Chance(8) && len(s.Pkts) > 0 && len(s.Pkts[0].Body.S) >= 3 {
				// a device that pads or NUL-terminates user, port or address: the octets are
				// part of the field, the lengths still add up, nothing to flag under the right key
				f := r.Intn(3)
				pad := PickOf(r, " ", "\x00", " \x00", "\x00\x00", "  ")
				s.Pkts[0].Body.S[f] = append(append([]byte{}, s.Pkts[0].Body.S[f]...), pad...)
			}
			if r.Chance(12) {
				// sessions may start anywhere in the sequence space, also right under its top
				s = ShiftSeq(s, PickOf(r, uint8(3), 5, 101, 249, 251, 253, 255))
			}
			scripts = append(scripts, s)
		}
		if focus == "C11" && r.Chance(15) {
			// the same command line asked for twice, split differently between the command
			// name and its arguments: each split is judged by the rules of its own name
			u := g.pickUser(scope)
			tail := PickOf(r, "route", "route vrf", "interface", "<cr>")
			a := SessAuthor(g.nextSid(), 0xc0, flags, u, []string{"service=shell", "cmd=show", "cmd-arg=ip", "cmd-arg=" + tail})
			b := SessAuthor(g.nextSid(), 0xc0, flags, u, []string{"service=shell", "cmd=show ip", "cmd-arg=" + tail})
			if r.Bool() {
				a, b = b, a
			}
			scripts = append(scripts, a, b)
		}
		if (focus == "C19" && !wrongKey && len(scripts) >= 2 && r.Chance(25)) || (focus == "C07" && !wrongKey && len(scripts) >= 2 && r.Chance(8)) {
			// a connection that starts out right (also with the single-connect flag, also in
			// the clear) and later carries a packet obfuscated with another key
			k := 1 + r.Intn(len(scripts)-1)
			scripts[k].Pkts[0].Key = []byte(r.token("W"))
			if r.Chance(50) {
				for _, pk := range scripts[0].Pkts {
					pk.Flags |= 4
				}
			}
			if r.Chance(30) {
				for _, pk := range scripts[0].Pkts {
					pk.Flags |= 1
				}
			}
		}
		cs.Ops = Interleave(r, scripts, r.Chance(30))
		if focus == "C07" && r.Chance(12) {
			// a used sequence number replayed inside a multi-packet login
			for _, sc := range scripts {
				if sc.Tag == "ascii" && len(sc.Pkts) >= 3 {
					if r.Chance(35) && sc.Pkts[1].Seq < 250 {
						// an even number inside a live exchange: above everything seen so far,
						// or the number of the reply just received
						k := 1 + r.Intn(2)
						sc.Pkts[k].Seq = sc.Pkts[k-1].Seq + PickOf(r, uint8(3), 3, 1, 5)
					} else {
						sc.Pkts[2].Seq = PickOf(r, sc.Pkts[1].Seq, sc.Pkts[0].Seq, sc.Pkts[1].Seq-2)
					}
					break
				}
			}
			cs.Ops = Interleave(r, scripts, false)
		}
		if focus == "C07" && r.Chance(20) {
			// rejection workloads: a sequence violation or an invalid header at the end
			bad := *scripts[0].Pkts[0]
			bad.Session = g.nextSid()
			switch r.Intn(4) {
			case 0:
				bad.Seq = 2
			case 1:
				bad.Seq = 0
			case 2:
				bad.Ver = 0xb0
			case 3:
				bad.Type = PickOf(r, uint8(9), 0, 0, 4, 0x80, 0xff)
			}
			cs.Ops = append(cs.Ops, Op{Kind: "send", Pkt: &bad})
			if r.Chance(60) {
				// a perfectly good request right behind the rejected packet: it must not be processed
				good := *scripts[0].Pkts[0]
				good.Session = g.nextSid()
				cs.Ops = append(cs.Ops, Op{Kind: "send", Pkt: &good})
			}
			cs.Ops = append(cs.Ops, Op{Kind: "idle"})
		}
		if r.Chance(50) {
			cs.Ops = append(cs.Ops, Op{Kind: "close"})
		}
		if faulty {
			// transport faults inside the exchange: the server's k-th write fails, is cut
			// short or blocks; or the client resets instead of closing
			switch r.Intn(4) {
			case 0:
				cs.WFault = append(cs.WFault, WFaultAt(1+r.Intn(4), "error"))
			case 1:
				cs.WFault = append(cs.WFault, WFaultAt(1+r.Intn(4), "short"))
			case 2:
				cs.WFault = append(cs.WFault, WFaultAt(1+r.Intn(4), "park"))
			case 3:
				if n := len(cs.Ops); n > 0 && cs.Ops[n-1].Kind == "close" {
					cs.Ops[n-1].Kind = "reset"
				} else {
					cs.Ops = append(cs.Ops, Op{Kind: "reset"})
				}
			}
		}
		p.Scen.Clients = append(p.Scen.Clients, cs)
	}
	if focus == "C12" && len(p.Scen.Clients) >= 2 && r.Chance(40) {
		// concurrent accounting of one user on several connections, with the sink slow
		// to take its argument
		p.Park = append(p.Park, "sink")
		if r.Bool() {
			p.Mode = "batch"
		}
	}
	p.Tape = r.Tape(1200)
	p.MaxSteps = 5000
}

// c13Addr draws remote addresses around the document's prefixes: inside, just outside,
// first/last address, IPv6, IPv4-mapped IPv6, non-TCP.
func c13Addr(r *Rand, d model.Doc, idx int) (string, bool) {
	port := fmt.Sprint(40000 + idx)
	var all []string
	for _, s := range d.Secrets {
		all = append(all, s.Prefixes...)
	}
	all = append(all, d.PrefixDeny...)
	all = append(all, d.PrefixAllow...)
	pfx := all[r.Intn(len(all))]
	switch c := r.Intn(20); {
	case c == 0:
		return "", true
	case c < 4:
		ip := AddrIn(r, pfx, true)
		return net.JoinHostPort(ip.String(), port), false
	case c < 6:
		ip := AddrIn(r, pfx, false)
		if v4 := ip.To4(); v4 != nil {
			return net.JoinHostPort("::ffff:"+v4.String(), port), false
		}
		return net.JoinHostPort(ip.String(), port), false
	case c == 6:
		return net.JoinHostPort(PickOf(r, "2001:db8:0::1", "2001:db8:4::9", "::1", "fe80::1"), port), false
	case c == 7:
		return net.JoinHostPort(PickOf(r, "198.51.100.7", "10.255.255.255", "9.255.255.255", "11.0.0.0"), port), false
	default:
		ip := AddrIn(r, pfx, false)
		return net.JoinHostPort(ip.String(), port), false
	}
}

// ---- C14: no client input crashes the server or disturbs other clients -----------------

func init() {
	register("C14", genC14)
}

// controlScripts is a known-good exchange: PAP login, command authorization, accounting start.
func (g *refGen) controlScripts(scope string) []SessScript {
	var user string
	for _, u := range g.d.Users {
		for _, s := range u.Scopes {
			if s == scope && g.pws[u.Name] != "" && user == "" {
				user = u.Name
			}
		}
	}
	if user == "" {
		for _, u := range g.d.Users {
			for _, s := range u.Scopes {
				if s == scope && user == "" {
					user = u.Name
				}
			}
		}
	}
	return []SessScript{
		SessPAP(g.nextSid(), 0xc1, 0, user, g.pws[user]),
		SessAuthor(g.nextSid(), 0xc0, 0, user, []string{"service=shell", "cmd=show", "cmd-arg=system"}),
		SessAcct(g.nextSid(), 0xc0, 0, 1, user, 2, []string{"task_id=1", "cmd=show system"}),
	}
}

func genC14(r *Rand, p *Plan, tier string) {
	p.Family = "ref-C14"
	p.Scen.Server = "ref"
	p.Scen.Format = PickOf(r, "yaml", "json")
	d := GenDoc(r, DocOpts{Keychain: true, OddAuth: true, InvalidRegex: true, Filters: r.Chance(20), OddScopes: r.Chance(30), Span: r.Chance(60)})
	d.Normalize()
	g := &refGen{r: r, d: d, sid: uint32(r.Intn(1 << 20))}
	g.names, g.pws = DocUsers(d)
	p.Scen.Docs = []model.Doc{d}
	p.Scen.Faulty = false
	nHost := 1 + r.Intn(up(3))
	idx := 0
	addControl := func(notBefore int) {
		scopeIdx := r.Intn(len(d.Secrets))
		cs := ClientSpec{Addr: ClientAddrFor(r, d, scopeIdx, idx), Tag: "control", NotBefore: notBefore}
		adm := RefAdmission(d, &cs)
		cs.Key = []byte(adm.Key)
		cs.Ops = Interleave(r, g.controlScripts(adm.Scope), false)
		cs.Ops = append(cs.Ops, Op{Kind: "close"})
		p.Scen.Clients = append(p.Scen.Clients, cs)
		idx++
	}
	addControl(0)
	for h := 0; h < nHost; h++ {
		scopeIdx := r.Intn(len(d.Secrets))
		cs := ClientSpec{Addr: ClientAddrFor(r, d, scopeIdx, idx), Tag: "hostile", NotBefore: r.Intn(10)}
		adm := RefAdmission(d, &cs)
		cs.Key = []byte(adm.Key)
		if r.Chance(20) {
			cs.Key = []byte(r.token("W"))
			if r.Chance(40) {
				// and the answer to it cannot be written
				cs.WFault = append(cs.WFault, WFaultAt(1, PickOf(r, "error", "error", "short")))
			}
		}
		flags := PickOf(r, uint8(0), 0, 1)
		// a valid prefix putting the connection into some handler state
		var scripts []SessScript
		for k := r.Intn(3); k > 0; k-- {
			switch r.Intn(3) {
			case 0:
				scripts = append(scripts, g.authenSess(adm.Scope, flags))
			case 1:
				scripts = append(scripts, g.authorSess(adm.Scope, flags))
			default:
				scripts = append(scripts, g.acctSess(adm.Scope, flags, true))
			}
		}
		cs.Ops = Interleave(r, scripts, true)
		// then hostile material
		nBad := 1 + r.Intn(4)
		for k := 0; k < nBad; k++ {
			switch r.Intn(10) {
			case 9: // a login left waiting for its next packet, continued with a well-formed packet of another type
				u := g.names[r.Intn(len(g.names))]
				st := SessASCII(g.nextSid(), flags, u, g.pws[u], r.Bool(), -1)
				first := *st.Pkts[0]
				cs.Ops = append(cs.Ops, Op{Kind: "send", Pkt: &first})
				var other SessScript
				if r.Bool() {
					other = SessAuthor(first.Session, 0xc0, flags, u, GenAuthorArgs(r, d))
				} else {
					other = SessAcct(first.Session, 0xc0, flags, 3, u, PickOf(r, uint8(2), 4, 8), GenAcctArgs(r))
				}
				op := *other.Pkts[0]
				op.Seq = 3
				cs.Ops = append(cs.Ops, Op{Kind: "send", Pkt: &op})
			case 0:
				cs.Ops = append(cs.Ops, Op{Kind: "raw", Raw: r.Bytes(r.Len(400))})
			case 1: // valid header, random body
				n := r.Len(300)
				hdr := model.Header{Version: r.version(), Type: uint8(1 + r.Intn(3)), Seq: uint8(1 + 2*r.Intn(5)), Flags: flags, Session: g.nextSid(), Length: uint32(n)}
				cs.Ops = append(cs.Ops, Op{Kind: "raw", Raw: append(hdr.Encode(), r.Bytes(n)...)})
			case 2: // mutated valid packet
				s := g.authenSess(adm.Scope, flags)
				pk := *s.Pkts[0]
				pk.Session = g.nextSid()
				bit := r.Intn(8 * len(pk.Wire(cs.Key)))
				pk.FlipBit = &bit
				cs.Ops = append(cs.Ops, Op{Kind: "send", Pkt: &pk})
			case 3: // every AAA body kind at a START position, with odd lengths
				typ := uint8(1 + r.Intn(3))
				kind := PickOf(r, model.KAuthenStart, model.KAuthenCont, model.KAuthenReply, model.KAuthorReq, model.KAuthorReply, model.KAcctReq, model.KAcctReply)
				cs.Ops = append(cs.Ops, Op{Kind: "send", Pkt: &PktSpec{Ver: r.version(), Type: typ, Seq: 1, Flags: flags, Session: g.nextSid(), Body: GenBody(r, kind, r.Chance(30))}})
			case 4: // inconsistent length octets
				b := GenBody(r, PickOf(r, model.KAuthenStart, model.KAuthorReq, model.KAcctReq), false).Encode()
				if len(b) > 9 {
					b[4+r.Intn(5)] = byte(r.Intn(256))
				}
				typ := uint8(1 + r.Intn(3))
				cs.Ops = append(cs.Ops, Op{Kind: "send", Pkt: &PktSpec{Ver: r.version(), Type: typ, Seq: 1, Flags: flags, Session: g.nextSid(), Body: BodySpec{Kind: "raw", Raw: b}}})
			case 5: // oversize announcement
				l := PickOf(r, uint32(65537), 1<<24, 0xffffffff)
				tr := 12 + r.Intn(40)
				cs.Ops = append(cs.Ops, Op{Kind: "send", Pkt: &PktSpec{Ver: 0xc0, Type: 1, Seq: 1, Flags: flags, Session: g.nextSid(), Body: BodySpec{Kind: "raw", Raw: r.Bytes(64)}, LenOverride: &l, Trunc: &tr}})
			case 6: // truncated packet then close
				s := g.acctSess(adm.Scope, flags, true)
				pk := *s.Pkts[0]
				tr := r.Intn(len(pk.Wire(cs.Key)))
				pk.Trunc = &tr
				cs.Ops = append(cs.Ops, Op{Kind: "send", Pkt: &pk})
			case 7: // empty and tiny bodies
				cs.Ops = append(cs.Ops, Op{Kind: "send", Pkt: &PktSpec{Ver: r.version(), Type: uint8(1 + r.Intn(3)), Seq: 1, Flags: flags, Session: g.nextSid(), Body: BodySpec{Kind: "raw", Raw: r.Bytes(r.Intn(10))}}})
			case 8: // an honest login of a user whose authenticator is oddly configured
				u := g.names[r.Intn(len(g.names))]
				scripts := []SessScript{SessPAP(g.nextSid(), 0xc1, flags, u, PwPool[r.Intn(len(PwPool))].Pw)}
				cs.Ops = append(cs.Ops, Interleave(r, scripts, true)...)
			}
		}
		cs.Ops = append(cs.Ops, Op{Kind: PickOf(r, "close", "reset", "idle")})
		p.Scen.Clients = append(p.Scen.Clients, cs)
		idx++
	}
	addControl(20 + r.Intn(30))
	if r.Chance(15) && len(p.Scen.Clients) >= 2 {
		// the keychain service answers slowly (here: not before the end of the run) for the
		// scope of one client; clients of other scopes must be admitted all the same
		last := p.Scen.Clients[len(p.Scen.Clients)-1]
		lastKey := RefAdmission(d, &last).Key
		for i := range p.Scen.Clients[:len(p.Scen.Clients)-1] {
			if k := RefAdmission(d, &p.Scen.Clients[i]).Key; k != "" && k != lastKey {
				p.Park = append(p.Park, "scope-keychain:"+k)
				break
			}
		}
	}
	if r.Chance(25) {
		// many clients can exhaust file descriptors: Accept fails with a temporary error
		p.Scen.Ctl = append(p.Scen.Ctl, Ctl{Kind: "accept-fault", Arg: PickOf(r, "temp", "temp", "plain"), NotBefore: r.Intn(25)})
	}
	p.Tape = r.Tape(1500)
	p.MaxSteps = 5000
}

// ---- C09: multiplexed / concurrent sessions never influence one another --------------------

func init() {
	register("C09", genC09)
}

// genC09probe: several sessions multiplexed on one connection of the bare library server,
// with scripted handlers; some handlers hand Reply a value the encoder must refuse (that
// request gets no reply) or reply nothing. The other sessions must not notice.
func genC09probe(r *Rand, p *Plan, tier string) {
	p.Family = "mux-probe"
	p.Scen.Server = "probe"
	key := r.key()
	cs := ClientSpec{Addr: clientAddr(0), Key: key, SrvKey: key}
	type ss struct {
		id   uint32
		seq  int
		typ  uint8
		done bool
	}
	var sess []*ss
	nSess := 2 + r.Intn(3)
	many := r.Chance(6)
	if many {
		nSess = PickOf(r, 17, 20, 33, 65, 130)
	}
	for k := 0; k < nSess; k++ {
		sess = append(sess, &ss{id: r.session() + uint32(k), seq: 1, typ: uint8(1 + r.Intn(3))})
	}
	fl := r.flags(true)
	nPk := 3 + r.Intn(up(10))
	if many {
		nPk = 2*nSess + r.Intn(nSess)
	}
	for k := 0; k < nPk; k++ {
		var live []*ss
		for _, s := range sess {
			if !s.done {
				live = append(live, s)
			}
		}
		if len(live) == 0 {
			break
		}
		s := live[r.Intn(len(live))]
		pk := &PktSpec{Ver: 0xc0, Type: s.typ, Seq: uint8(s.seq), Flags: fl, Session: s.id, Body: GenBody(r, PickOf(r, requestKinds(s.typ)...), false)}
		cs.Ops = append(cs.Ops, Op{Kind: "send", Pkt: pk})
		st := HStep{Next: 1}
		switch c := r.Intn(20); {
		case c < 3:
			bad := GenBodyWide(r, replyKind(s.typ))
			for tries := 0; bad.Sendable() && tries < 8; tries++ {
				bad = GenBodyWide(r, replyKind(s.typ))
			}
			st.Reply = &bad
		case c < 5:
			// no reply at all
		default:
			rep := smallReply(r, s.typ)
			if rep.Kind == model.KAuthenReply && nth(rep.N, 0) == 6 {
				rep.N[0] = 5
			}
			st.Reply = rep
		}
		if r.Chance(25) || s.seq >= 253 {
			st.Next = 0
			s.done = true
		}
		cs.Handler = append(cs.Handler, st)
		s.seq += 2
	}
	cs.Ops = append(cs.Ops, Op{Kind: PickOf(r, "idle", "close")})
	p.Scen.Clients = []ClientSpec{cs}
	p.Tape = r.Tape(1200)
	p.MaxSteps = 3000
	if many {
		p.MaxSteps = 12000
	}
}

func genC09(r *Rand, p *Plan, tier string) {
	if r.Chance(10) {
		genC09probe(r, p, tier)
		return
	}
	p.Family = "mux"
	p.Scen.Server = "ref"
	p.Scen.Format = PickOf(r, "yaml", "json")
	d := GenDoc(r, DocOpts{Keychain: true, DupUsers: r.Chance(40)})
	d.Normalize()
	g := &refGen{r: r, d: d, sid: uint32(r.Intn(1 << 20))}
	g.names, g.pws = DocUsers(d)
	p.Scen.Docs = []model.Doc{d}
	nCli := 1 + r.Intn(up(4))
	sameIDs := r.Chance(40) // equal session ids on different connections
	for ci := 0; ci < nCli; ci++ {
		scopeIdx := r.Intn(len(d.Secrets))
		cs := ClientSpec{Addr: ClientAddrFor(r, d, scopeIdx, ci)}
		adm := RefAdmission(d, &cs)
		cs.Key = []byte(adm.Key)
		flags := PickOf(r, uint8(0), 0, 0, 1, 4)
		if sameIDs {
			g.sid = 4242
		}
		k := 2 + r.Intn(up(7))
		busy := ci == 0 && r.Chance(6)
		if busy {
			// a busy single-connect device: dozens of logins in progress on one connection,
			// most of them waiting for their next packet at the same time
			k = PickOf(r, 18, 24, 33, 40, 70)
		}
		var scripts []SessScript
		for j := 0; j < k; j++ {
			fl := flags
			if r.Chance(30) {
				// sessions sharing a connection need not share their flag octet
				fl = PickOf(r, uint8(0), 1, 4, 5)
			}
			if busy && r.Chance(85) {
				u := g.pickUser(adm.Scope)
				scripts = append(scripts, SessASCII(g.nextSid(), fl, u, g.pickPw(u), r.Chance(30), -1))
				continue
			}
			switch r.Intn(6) {
			case 0, 1, 2:
				scripts = append(scripts, g.authenSess(adm.Scope, fl))
			case 3, 4:
				scripts = append(scripts, g.authorSess(adm.Scope, fl))
			default:
				scripts = append(scripts, g.acctSess(adm.Scope, fl, false))
			}
		}
		if r.Chance(35) && len(scripts) >= 2 {
			// a finished session's id is used again for a new session on the same connection
			a, b := r.Intn(len(scripts)), r.Intn(len(scripts))
			if a != b {
				sid := scripts[a].Pkts[0].Session
				for _, pk := range scripts[b].Pkts {
					cp := *pk
					cp.Session = sid
					scripts[a].Pkts = append(scripts[a].Pkts, &cp)
				}
				scripts = append(scripts[:b:b], scripts[b+1:]...)
			}
		}
		cs.Ops = Interleave(r, scripts, r.Chance(50))
		p.Scen.Clients = append(p.Scen.Clients, cs)
	}
	if nCli > 1 && r.Chance(50) {
		p.Mode = "batch"
	}
	if r.Chance(50) {
		p.Park = append(p.Park, PickOf(r, "log:record", "log:[%v] sessionID is complete", "log:accepting user", "log:failed to validate", "log:detected user", "keychain", "sink", "log:prefix secret provider"))
	}
	p.Tape = r.Tape(2500)
	p.MaxSteps = 6000
}

// SoloPlans derives, from a multiplexed plan, one plan per (connection, session) in
// which that session is the only one the server ever sees (fresh server, same
// configuration, fault-free, nothing parked).
func SoloPlans(p *Plan) (plans []*Plan, conn []int, sess []uint32) {
	for ci, c := range p.Scen.Clients {
		seen := map[uint32]bool{}
		var order []uint32
		for _, o := range c.Ops {
			if o.Kind == "send" && o.Pkt != nil && !seen[o.Pkt.Session] {
				seen[o.Pkt.Session] = true
				order = append(order, o.Pkt.Session)
			}
		}
		for _, sid := range order {
			q := &Plan{V: 1, Property: p.Property, Family: "solo", Seed: p.Seed, Run: p.Run, Mode: "serial", Build: p.Build, MaxSteps: 2000}
			q.Scen.Server, q.Scen.Format, q.Scen.Docs = p.Scen.Server, p.Scen.Format, p.Scen.Docs
			cs := ClientSpec{Addr: c.Addr, NonTCP: c.NonTCP, Key: c.Key, SrvKey: c.SrvKey, Handler: c.Handler}
			n := 0
			for _, o := range c.Ops {
				if o.Kind == "send" && o.Pkt != nil && o.Pkt.Session == sid {
					n++
					cs.Ops = append(cs.Ops, Op{Kind: "send", Pkt: o.Pkt}, Op{Kind: "await-total", N: n})
				}
			}
			q.Scen.Clients = []ClientSpec{cs}
			plans = append(plans, q)
			conn = append(conn, ci+1)
			sess = append(sess, sid)
		}
	}
	return
}

// ---- C16: reloading equals starting fresh ------------------------------------------------

func init() {
	register("C16", genC16)
}

// mutateDoc derives the next document of a history from the previous one.
func mutateDoc(r *Rand, d model.Doc) model.Doc {
	// deep copy
	q := d.Clone()
	switch r.Intn(12) {
	case 0:
		q.PrefixDeny = nil // drop the optional top-level key
	case 1:
		q.PrefixAllow = nil
	case 2:
		q.PrefixDeny = []string{PickOf(r, "10.9.0.0/16", "172.16.0.0/12")}
	case 3:
		if len(q.Users) > 1 {
			i := r.Intn(len(q.Users))
			q.Users = append(q.Users[:i:i], q.Users[i+1:]...) // remove a user (others move up)
		}
	case 4:
		if len(q.Users) > 1 {
			i, j := r.Intn(len(q.Users)), r.Intn(len(q.Users))
			q.Users[i], q.Users[j] = q.Users[j], q.Users[i] // reorder
		}
	case 5:
		if len(q.Secrets) > 1 {
			i := r.Intn(len(q.Secrets))
			q.Secrets = append(q.Secrets[:i:i], q.Secrets[i+1:]...)
		}
	case 6:
		if len(q.Users) > 0 {
			u := &q.Users[r.Intn(len(q.Users))]
			switch r.Intn(5) {
			case 0:
				u.Commands = nil
			case 1:
				u.Services = nil
			case 2:
				u.Groups = nil
			case 3:
				u.Authenticator = nil
			case 4:
				u.Accounter = nil
			}
		}
	case 7:
		if len(q.Users) > 0 {
			u := &q.Users[r.Intn(len(q.Users))]
			if len(u.Commands) > 0 {
				u.Commands = u.Commands[:len(u.Commands)-1]
			}
			if len(u.Scopes) > 1 {
				u.Scopes = u.Scopes[:1]
			}
		}
	case 8:
		if len(q.Users) > 0 {
			u := &q.Users[r.Intn(len(q.Users))]
			if len(u.Groups) > 0 {
				g := &u.Groups[0]
				g.Commands, g.Services = nil, nil
			}
		}
	case 11:
		// everybody is moved out of the scopes that have a secret configuration: the file
		// still parses, and nothing can be built from it
		for i := range q.Users {
			q.Users[i].Scopes = []string{"decommissioned"}
		}
	case 9:
		// a brand new, smaller document
		return GenDoc(r, DocOpts{Filters: true})
	case 10:
		if len(q.Users) > 0 {
			u := &q.Users[r.Intn(len(q.Users))]
			for i := range u.Services {
				if len(u.Services[i].SetValues) > 1 {
					u.Services[i].SetValues = u.Services[i].SetValues[:1]
				}
				u.Services[i].Match = nil
			}
			if u.Authenticator != nil {
				np := PwPool[r.Intn(len(PwPool))]
				u.Authenticator.Options = map[string]string{"hash": np.Hash}
				u.Authenticator.Password = np.Pw // the credential changes with the document
			}
		}
	}
	return q
}

// genC16e2e: the reference server reloads documents while clients come and go; rights,
// users, scopes and filters removed by a reload must be gone for new connections.
func genC16e2e(r *Rand, p *Plan, tier string) { genReloadE2E(r, p, tier, false) }

// genReloadE2E: burst forces several reloads to be handed to the loader at the same
// moment, with configuration builds parked at their own log calls (C10, C13: what is in
// force afterwards must be the configuration published last, whatever order builds finish in).
func genReloadE2E(r *Rand, p *Plan, tier string, burst bool) {
	p.Family = "reload-end-to-end"
	p.Scen.Server = "ref"
	p.Scen.Format = PickOf(r, "yaml", "json")
	d := GenDoc(r, DocOpts{Filters: true, Keychain: false})
	d.Normalize()
	docs := []model.Doc{d}
	nDocs := 1 + r.Intn(3)
	if burst {
		nDocs = 2 + r.Intn(2)
	}
	for i := 0; i < nDocs; i++ {
		nd := mutateDoc(r, docs[len(docs)-1])
		nd.Normalize()
		docs = append(docs, nd)
	}
	if !burst && r.Chance(40) && len(d.Secrets) > 0 && len(d.Secrets[0].Prefixes) > 0 {
		// targeted: the first document filters part of a scope's prefix, the next one has
		// no filters at all; clients from the filtered range come back after the reload
		pfx := d.Secrets[0].Prefixes[0]
		if r.Bool() {
			docs[0].PrefixDeny, docs[0].PrefixAllow = []string{pfx}, nil
		} else {
			docs[0].PrefixDeny, docs[0].PrefixAllow = nil, []string{"192.0.2.0/24"}
		}
		nd := docs[0].Clone()
		nd.PrefixDeny, nd.PrefixAllow = nil, nil
		nd.Normalize()
		docs = []model.Doc{docs[0], nd}
	}
	p.Scen.Docs = docs
	step := 0
	idx := 0
	for di := 0; di < len(docs); di++ {
		if di > 0 {
			step += 8 + r.Intn(20)
			p.Scen.Ctl = append(p.Scen.Ctl, Ctl{Kind: "publish", N: di, NotBefore: step})
			step += 6 + r.Intn(10)
		}
		// clients that arrive while document di is (most likely) in force, using the
		// keys, users and addresses of any document of the history
		for k := r.Intn(3); k > 0; k-- {
			src := docs[r.Intn(len(docs))]
			g := &refGen{r: r, d: src, sid: uint32(1000*idx + r.Intn(500))}
			g.names, g.pws = DocUsers(src)
			if len(src.Secrets) == 0 {
				continue
			}
			scopeIdx := r.Intn(len(src.Secrets))
			cs := ClientSpec{Addr: ClientAddrFor(r, src, scopeIdx, idx), NotBefore: step + r.Intn(6)}
			adm := RefAdmission(src, &cs)
			cs.Key = []byte(adm.Key)
			if !adm.Admit {
				cs.Key = []byte(src.Secrets[scopeIdx].Secret.Key)
			}
			var scripts []SessScript
			for j := 1 + r.Intn(3); j > 0; j-- {
				switch r.Intn(3) {
				case 0:
					scripts = append(scripts, g.authenSess(adm.Scope, 0))
				case 1:
					scripts = append(scripts, g.authorSess(adm.Scope, 0))
				default:
					scripts = append(scripts, g.acctSess(adm.Scope, 0, false))
				}
			}
			cs.Ops = Interleave(r, scripts, false)
			cs.Ops = append(cs.Ops, Op{Kind: "close"})
			p.Scen.Clients = append(p.Scen.Clients, cs)
			idx++
		}
	}
	if len(p.Scen.Ctl) >= 2 && (burst || r.Chance(30)) {
		// a burst of reloads while the loader is still busy with the first one
		at := p.Scen.Ctl[0].NotBefore
		for i := range p.Scen.Ctl {
			p.Scen.Ctl[i].NotBefore = at
		}
		p.Park = append(p.Park, PickOf(r, "log:updated all providers", "log:processing secret config", "log:loaded user"))
		p.Mode = "batch"
	}
	p.Tape = r.Tape(2000)
	p.MaxSteps = 6000
}

// genC16watcher: a document history that goes through the file watcher: rewrites of the
// configured file, writes to siblings whose names contain the configured name (editor
// backups, staged copies), swap files, and writes whose change event is lost.
func genC16watcher(r *Rand, p *Plan, tier string) {
	p.Family = "config-watcher"
	p.Scen.Server = "none"
	p.Scen.Format = PickOf(r, "yaml", "json")
	d := GenDoc(r, DocOpts{Filters: true})
	ls := &LoaderScen{Watcher: true}
	n := 2 + r.Intn(up(5))
	cur := d
	for i := 0; i < n; i++ {
		if i > 0 {
			cur = mutateDoc(r, cur)
		}
		text := string(cur.Render(p.Scen.Format))
		st := LoaderStep{Doc: len(p.Scen.RawDocs), Via: "watch"}
		if i > 0 {
			switch r.Intn(10) {
			case 0, 1, 2:
				// a different, loadable document lands next to the configured file
				st.Sibling = PickOf(r, ".new", "~", ".orig", ".bak", ".swp")
				text = string(mutateDoc(r, mutateDoc(r, cur)).Render(p.Scen.Format))
			case 3:
				text = PickOf(r, "{{{ not: [valid", "users: [}\n", "[1,2", "%%%")
			case 4:
				st.NoEvent = true
			case 5:
				st.OldMtime = true
			case 6, 7:
				st.Replace = true
			}
		}
		p.Scen.RawDocs = append(p.Scen.RawDocs, text)
		ls.Steps = append(ls.Steps, st)
	}
	p.Scen.Loader = ls
	p.Tape = r.Tape(10)
}

func genC16(r *Rand, p *Plan, tier string) {
	if r.Chance(30) {
		genC16e2e(r, p, tier)
		return
	}
	if r.Chance(15) {
		genC16watcher(r, p, tier)
		return
	}
	p.Family = "config-history"
	p.Scen.Server = "none"
	p.Scen.Format = PickOf(r, "yaml", "json")
	d := GenDoc(r, DocOpts{Filters: true, Overlap: r.Bool()})
	if len(d.PrefixDeny) == 0 && r.Chance(60) {
		d.PrefixDeny = []string{"10.200.0.0/16"}
	}
	ls := &LoaderScen{}
	n := 2 + r.Intn(up(6))
	cur := d
	for i := 0; i < n; i++ {
		if i > 0 {
			cur = mutateDoc(r, cur)
		}
		text := string(cur.Render(p.Scen.Format))
		st := LoaderStep{Doc: len(p.Scen.RawDocs), Via: PickOf(r, "unmarshal", "unmarshal", "load")}
		switch r.Intn(14) {
		case 0: // unparsable document
			text = PickOf(r, "{{{ not: [valid", "users: [}\n", "\t- broken\n  yaml: : :", "[1,2", "{\"users\": [", "%%%")
		case 1: // fails the minimum-content check
			e := cur.Clone()
			if r.Bool() {
				e.Users = nil
			} else {
				e.Secrets = nil
			}
			text = string(e.Render(p.Scen.Format))
		case 2:
			st.Tear, st.TearN = "short", r.Intn(len(text)+1)
		case 3:
			st.Tear, st.TearN = "stale-tail", r.Intn(len(text)+1)
		case 4:
			st.Tear = PickOf(r, "empty", "garbage")
			st.TearN = r.Intn(1000)
		case 5, 6:
			// a file put in place with an old timestamp (restored backup)
			st.Via = "load"
			st.OldMtime = true
		case 7, 8:
			// written aside and renamed over the configured file
			st.Via = "load"
			st.Replace = true
		}
		p.Scen.RawDocs = append(p.Scen.RawDocs, text)
		ls.Steps = append(ls.Steps, st)
	}
	p.Scen.Loader = ls
	p.Tape = r.Tape(10)
}

// ---- C15: data races (race-detector build) ------------------------------------------------

func init() {
	register("C15", genC15)
}

// genAtomicReload: versions of a configuration built so that, for the probe addresses,
// every mixture of two versions gives an outcome no single version gives; lookups and
// publications overlap, with every statement of the loader a possible parking point.
func genAtomicReload(r *Rand, p *Plan, tier string) {
	p.Family = "atomic-reload"
	p.Build = "yield"
	p.Scen.Server = "lookup"
	p.Scen.Format = PickOf(r, "yaml", "json")
	nVer := 2 + r.Intn(3)
	pw := PwPool[r.Intn(len(PwPool))]
	for v := 0; v < nVer; v++ {
		var d model.Doc
		nsc := 1 + r.Intn(2)
		for i := 0; i < nsc; i++ {
			d.Secrets = append(d.Secrets, model.SecretCfg{Name: fmt.Sprintf("sc%d", i), Secret: model.KeychainCfg{Group: "g", Key: fmt.Sprintf("K-v%d-s%d-%s", v, i, r.Alnum(8))},
				Handler: model.HandlerCfg{Type: 1}, Type: 1, Prefixes: []string{fmt.Sprintf("10.%d.0.0/16", 1+i)}})
		}
		if r.Chance(30) {
			// scope order swapped and overlapping: the first match differs by version
			d.Secrets[0].Prefixes = []string{"10.0.0.0/8"}
		}
		d.Users = []model.UserCfg{{Name: "u", Scopes: []string{"sc0", "sc1"}, Authenticator: &model.AuthCfg{Type: 1, Options: map[string]string{"hash": pw.Hash}, Password: pw.Pw}}}
		switch (v + r.Intn(2)) % 3 {
		case 1:
			d.PrefixDeny = []string{fmt.Sprintf("10.%d.0.0/16", 1+r.Intn(2))}
		case 2:
			d.PrefixAllow = []string{fmt.Sprintf("10.%d.0.0/16", 1+r.Intn(2))}
		}
		d.Normalize()
		p.Scen.Docs = append(p.Scen.Docs, d)
	}
	step := 2
	for v := 1; v < nVer; v++ {
		p.Scen.Ctl = append(p.Scen.Ctl, Ctl{Kind: "publish", N: v, NotBefore: step})
		step += 3 + r.Intn(12)
	}
	n := 2 + r.Intn(up(6))
	for i := 0; i < n; i++ {
		p.Scen.Clients = append(p.Scen.Clients, ClientSpec{Addr: fmt.Sprintf("10.%d.2.3:%d", 1+r.Intn(3), 40000+i), NotBefore: r.Intn(step + 5)})
	}
	p.Park = []string{"yield:loader.go:updates"}
	if r.Chance(30) {
		p.Park = append(p.Park, "yield:loader.go:get")
	}
	p.Tape = r.Tape(1500)
	p.MaxSteps = 1500
}

// genConcurrentAdmission: many connections are admitted at the same time by freshly
// built filters and providers (right after start-up and right after a reload), with
// the scheduler free to park a lookup between any two statements of the filter and
// provider code. Every lookup must still be decided by one whole configuration.
func genConcurrentAdmission(r *Rand, p *Plan, tier string) {
	p.Family = "concurrent-admission"
	p.Build = "yield"
	p.Scen.Server = "lookup"
	p.Scen.Format = PickOf(r, "yaml", "json")
	nVer := 1 + r.Intn(2)
	pw := PwPool[r.Intn(len(PwPool))]
	nets := func(n int) []string {
		var out []string
		for _, k := range r.Perm(5)[:n] {
			out = append(out, fmt.Sprintf("10.%d.0.0/16", 1+k))
		}
		return out
	}
	for v := 0; v < nVer; v++ {
		var d model.Doc
		nsc := 1 + r.Intn(3)
		for i := 0; i < nsc; i++ {
			pf := nets(1 + r.Intn(3))
			if r.Chance(25) {
				pf = append(pf, "10.0.0.0/8")
			}
			d.Secrets = append(d.Secrets, model.SecretCfg{Name: fmt.Sprintf("sc%d", i), Secret: model.KeychainCfg{Group: "g", Key: fmt.Sprintf("K-v%d-s%d-%s", v, i, r.Alnum(8))},
				Handler: model.HandlerCfg{Type: 1}, Type: 1, Prefixes: pf})
		}
		d.Users = []model.UserCfg{{Name: "u", Scopes: []string{"sc0", "sc1", "sc2"}[:nsc], Authenticator: &model.AuthCfg{Type: 1, Options: map[string]string{"hash": pw.Hash}, Password: pw.Pw}}}
		switch r.Intn(4) {
		case 0:
			d.PrefixDeny = nets(2 + r.Intn(3))
		case 1:
			d.PrefixAllow = nets(2 + r.Intn(3))
		case 2:
			d.PrefixDeny = nets(2 + r.Intn(2))
			d.PrefixAllow = nets(2 + r.Intn(3))
		}
		d.Normalize()
		p.Scen.Docs = append(p.Scen.Docs, d)
	}
	step := 2
	for v := 1; v < nVer; v++ {
		step += r.Intn(10)
		p.Scen.Ctl = append(p.Scen.Ctl, Ctl{Kind: "publish", N: v, NotBefore: step})
	}
	n := 3 + r.Intn(up(6))
	for i := 0; i < n; i++ {
		nb := 0
		if r.Chance(40) {
			nb = r.Intn(step + 6)
		}
		p.Scen.Clients = append(p.Scen.Clients, ClientSpec{Addr: fmt.Sprintf("10.%d.2.3:%d", 1+r.Intn(6), 40000+i), NotBefore: nb})
	}
	p.Park = []string{"yield:prefix_filter.go", "yield:provider.go"}
	if r.Chance(30) {
		p.Park = append(p.Park, "yield:loader.go:get")
	}
	if nVer > 1 && r.Chance(50) {
		p.Park = append(p.Park, "yield:loader.go:updates")
	}
	p.Tape = r.Tape(1500)
	p.MaxSteps = 1500
}

// genSyslogDirect: accounting requests handed to the syslog-backed accounter while the
// syslog daemon goes away and comes back (see runner/syslogdirect.go).
func genSyslogDirect(r *Rand, p *Plan, tier string) {
	p.Family = "syslog-accounter"
	p.Scen.Server = "syslog-direct"
	p.Scen.Faulty = true
	cs := ClientSpec{Addr: clientAddr(0)}
	up := true
	n := 2 + r.Intn(8)
	sid := r.session()
	for k := 0; k < n; k++ {
		switch c := r.Intn(20); {
		case c < 3 && up:
			cs.Ops = append(cs.Ops, Op{Kind: "sink-down"})
			up = false
			continue
		case c < 8 && !up:
			cs.Ops = append(cs.Ops, Op{Kind: "sink-up"})
			up = true
			continue
		}
		af := PickOf(r, uint8(2), 4, 8, 0x0a, 2, 4)
		if r.Chance(12) {
			af = uint8(r.Intn(256))
		}
		if r.Chance(6) {
			af = 4 | 8 | uint8(r.Intn(4))
		}
		seq := uint8(1)
		if r.Chance(30) {
			seq = uint8(1 + 2*r.Intn(100))
		}
		body := BodySpec{Kind: model.KAcctReq, N: []uint8{af, 6, 1, 1, 1}, S: [][]byte{[]byte("u" + r.Alnum(4)), []byte(hostileText(r, "tty")), []byte(hostileText(r, "addr"))}, Args: toArgs(GenAcctArgs(r))}
		if r.Chance(8) {
			body = BodySpec{Kind: "raw", Raw: r.Bytes(r.Len(60))}
		}
		cs.Ops = append(cs.Ops, Op{Kind: "send", Pkt: &PktSpec{Ver: r.version(), Type: model.TypeAcct, Seq: seq, Flags: r.flags(false), Session: sid + uint32(k), Body: body}})
	}
	p.Scen.Clients = []ClientSpec{cs}
	p.Tape = nil
	p.MaxSteps = 100
}

func genC15(r *Rand, p *Plan, tier string) {
	if r.Chance(25) {
		genAtomicReload(r, p, tier)
		return
	}
	if r.Chance(6) {
		// the file watcher under the race detector, with a consumer that does not take every
		// publication at once: reloads must still be ordered
		genC16watcher(r, p, tier)
		p.Family = "config-watcher-race"
		p.Build = "race"
		for i := range p.Scen.Loader.Steps {
			if i > 0 && i < len(p.Scen.Loader.Steps)-1 && r.Chance(50) {
				p.Scen.Loader.Steps[i].NoTake = true
			}
		}
		return
	}
	if r.Chance(25) {
		// published configurations are never written again (loader histories, JSON and YAML)
		genC16(r, p, tier)
		for p.Scen.Loader == nil {
			*p = Plan{V: 1, Property: "C15", Seed: p.Seed, Run: p.Run, Mode: "serial", MaxSteps: 4000}
			genC16(r, p, tier)
		}
		p.Family = "published-config-immutable"
		p.Build = "race"
		return
	}
	p.Family = "race-batches"
	p.Build = "race"
	p.Mode = "batch"
	p.Scen.Server = "ref"
	p.Scen.Format = PickOf(r, "yaml", "json")
	d := GenDoc(r, DocOpts{Scopes: 1, Keychain: true})
	// surrounding whitespace in rule names and patterns makes in-place trimming visible
	for ui := range d.Users {
		for ci := range d.Users[ui].Commands {
			c := &d.Users[ui].Commands[ci]
			c.Name = " " + c.Name
			for mi := range c.Match {
				if r.Chance(50) {
					// an expression no earlier run of this worker process has seen: whatever the
					// authorizer keeps per expression is built anew, by whoever comes first
					c.Match[mi] = c.Match[mi] + "|zq" + r.Alnum(8)
				}
				c.Match[mi] = c.Match[mi] + " "
			}
		}
	}
	d.Normalize()
	g := &refGen{r: r, d: d, sid: uint32(r.Intn(1 << 20))}
	g.names, g.pws = DocUsers(d)
	docs := []model.Doc{d}
	if r.Chance(60) {
		nd := mutateDoc(r, d)
		if r.Chance(50) {
			nd = d.Clone() // reload of an equal configuration
		}
		nd.Normalize()
		docs = append(docs, nd)
		p.Scen.Ctl = append(p.Scen.Ctl, Ctl{Kind: "publish", N: 1, NotBefore: r.Intn(20)})
		if r.Chance(30) {
			p.Scen.Ctl = append(p.Scen.Ctl, Ctl{Kind: "publish", N: 1, NotBefore: r.Intn(30)})
		}
	}
	p.Scen.Docs = docs
	nCli := 2 + r.Intn(up(4))
	// everybody works as the same user so that per-user state is shared
	user := g.pickUser(d.Secrets[0].Name)
	for ci := 0; ci < nCli; ci++ {
		cs := ClientSpec{Addr: ClientAddrFor(r, d, 0, ci), NotBefore: r.Intn(6)}
		adm := RefAdmission(d, &cs)
		cs.Key = []byte(adm.Key)
		var scripts []SessScript
		for k := 1 + r.Intn(4); k > 0; k-- {
			u := user
			if r.Chance(20) {
				u = g.pickUser(adm.Scope)
			}
			switch r.Intn(4) {
			case 0:
				scripts = append(scripts, SessPAP(g.nextSid(), 0xc1, 0, u, g.pws[u]))
			case 1:
				scripts = append(scripts, SessASCII(g.nextSid(), 0, u, g.pws[u], r.Bool(), -1))
			case 2:
				scripts = append(scripts, SessAuthor(g.nextSid(), 0xc0, 0, u, GenAuthorArgs(r, d)))
			default:
				scripts = append(scripts, SessAcct(g.nextSid(), 0xc0, 0, 1, u, 2, GenAcctArgs(r)))
			}
		}
		cs.Ops = Interleave(r, scripts, r.Bool())
		cs.Ops = append(cs.Ops, Op{Kind: PickOf(r, "close", "close", "idle", "reset")})
		p.Scen.Clients = append(p.Scen.Clients, cs)
	}
	if r.Chance(30) {
		// shutdown racing with an accept: cancellation becomes enabled in the very step
		// in which a client dials, and the shutdown path yields at its log calls
		p.Family = "race-batches"
		k := r.Intn(len(p.Scen.Clients))
		at := 2 + r.Intn(12)
		p.Scen.Clients[k].NotBefore = at
		p.Scen.Ctl = append(p.Scen.Ctl, Ctl{Kind: "cancel", NotBefore: at})
		p.Park = []string{PickOf(r, "log:waiting for [", "log:Stopping server listener", "log:waiting for [")}
		p.Tape = r.Tape(2500)
		p.MaxSteps = 4000
		return
	}
	// make lookups and reloads co-runnable: some client dials in the very step in which
	// a publication becomes enabled
	for _, c := range p.Scen.Ctl {
		if c.Kind == "publish" && len(p.Scen.Clients) > 0 {
			p.Scen.Clients[r.Intn(len(p.Scen.Clients))].NotBefore = c.NotBefore
		}
	}
	if r.Chance(40) {
		p.Scen.Ctl = append(p.Scen.Ctl, Ctl{Kind: "cancel", NotBefore: r.Intn(60)})
	}
	// in race runs an armed site is a yield point inside the handler (see World.QuietYield)
	if r.Chance(70) {
		p.Park = append(p.Park, PickOf(r, "log:record", "log:detected user", "log:detected user", "log:[%v] user", "log:accepting user", "log:failed to validate", "sink", "log:prefix secret provider", "log:remote", "log:Stopping server listener", "log:waiting for [", "log:Stopping server listener"))
	}
	p.Tape = r.Tape(2500)
	p.MaxSteps = 4000
}

// genC17ref: shutdown of the reference server while its handlers are parked at logger,
// keychain and sink seams in the middle of AAA exchanges.
func genC17ref(r *Rand, p *Plan, tier string) {
	p.Family = "shutdown-ref"
	p.Scen.Server = "ref"
	p.Scen.Format = "yaml"
	p.Scen.Stall = r.Chance(50)
	p.Scen.Faulty = true // cancellation cuts exchanges short: completeness clauses are off
	if r.Chance(40) {
		p.Mode = "batch"
	}
	d := GenDoc(r, DocOpts{Scopes: 1, Keychain: true})
	d.Normalize()
	g := &refGen{r: r, d: d, sid: uint32(r.Intn(1 << 20))}
	g.names, g.pws = DocUsers(d)
	p.Scen.Docs = []model.Doc{d}
	n := 1 + r.Intn(up(4))
	for ci := 0; ci < n; ci++ {
		cs := ClientSpec{Addr: ClientAddrFor(r, d, 0, ci), NotBefore: r.Intn(20)}
		adm := RefAdmission(d, &cs)
		cs.Key = []byte(adm.Key)
		var scripts []SessScript
		for k := 1 + r.Intn(3); k > 0; k-- {
			switch r.Intn(3) {
			case 0:
				scripts = append(scripts, g.authenSess(adm.Scope, 0))
			case 1:
				scripts = append(scripts, g.authorSess(adm.Scope, 0))
			default:
				scripts = append(scripts, g.acctSess(adm.Scope, 0, false))
			}
		}
		cs.Ops = Interleave(r, scripts, r.Bool())
		cs.Ops = append(cs.Ops, Op{Kind: PickOf(r, "idle", "close", "idle")})
		p.Scen.Clients = append(p.Scen.Clients, cs)
	}
	p.Scen.Ctl = append(p.Scen.Ctl, Ctl{Kind: "cancel", NotBefore: r.Intn(50)})
	if r.Chance(30) {
		p.Scen.Ctl = append(p.Scen.Ctl, Ctl{Kind: "accept-fault", Arg: PickOf(r, "temp", "fatal", "plain"), NotBefore: r.Intn(40)})
	}
	p.Park = []string{PickOf(r, "log:record", "log:accepting user", "log:failed to validate", "log:detected user", "keychain", "sink", "log:prefix secret provider", "log:[%v] sessionID is complete", "log:context cancellation")}
	if r.Chance(30) {
		p.Park = append(p.Park, PickOf(r, "log:record", "sink", "log:Stopping server listener"))
	}
	p.Tape = r.Tape(2000)
	p.MaxSteps = 2500
}
