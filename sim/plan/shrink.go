package plan

import "encoding/json"

// Clone deep-copies a plan.
func (p *Plan) Clone() *Plan {
	b, _ := json.Marshal(p)
	var q Plan
	_ = json.Unmarshal(b, &q)
	return &q
}

// Size is the measure the shrinker minimises.
func (p *Plan) Size() int {
	n := len(p.Tape) + 10*len(p.Park) + 20*len(p.Scen.Ctl)
	for _, t := range p.Tape {
		if t != 0 {
			n++
		}
	}
	for _, c := range p.Scen.Clients {
		n += 50 + 5*len(c.Handler) + 5*len(c.WFault)
		for _, o := range c.Ops {
			n += 20
			if o.Pkt != nil {
				n += len(o.Pkt.Body.Encode()) / 8
			}
			n += len(o.Raw) / 8
		}
	}
	for _, d := range p.Scen.Docs {
		n += 30 + 10*len(d.Users) + 10*len(d.Secrets) + len(d.PrefixDeny) + len(d.PrefixAllow)
		for _, u := range d.Users {
			n += 3*len(u.Commands) + 3*len(u.Services) + 5*len(u.Groups)
		}
	}
	n += 20 * len(p.Scen.RawDocs)
	if p.Scen.Loader != nil {
		n += 20 * len(p.Scen.Loader.Steps)
	}
	return n
}

// Candidates returns smaller variants of the plan, most aggressive first. The driver
// keeps a candidate when the same violation signature persists.
func Candidates(p *Plan) []*Plan {
	var out []*Plan
	add := func(f func(q *Plan) bool) {
		q := p.Clone()
		if f(q) {
			out = append(out, q)
		}
	}
	// drop clients (keeping indices of later clients stable is not required: connection
	// ids follow client order)
	if len(p.Scen.Clients) > 1 {
		for i := range p.Scen.Clients {
			i := i
			add(func(q *Plan) bool {
				q.Scen.Clients = append(q.Scen.Clients[:i:i], q.Scen.Clients[i+1:]...)
				var ctl []Ctl
				for _, c := range q.Scen.Ctl {
					if c.AfterOp > 0 && c.AfterClient == i {
						continue
					}
					if c.AfterOp > 0 && c.AfterClient > i {
						c.AfterClient--
					}
					ctl = append(ctl, c)
				}
				q.Scen.Ctl = ctl
				return true
			})
		}
	}
	// drop control events, park sites
	for i := range p.Scen.Ctl {
		i := i
		add(func(q *Plan) bool { q.Scen.Ctl = append(q.Scen.Ctl[:i:i], q.Scen.Ctl[i+1:]...); return true })
	}
	for i := range p.Park {
		i := i
		add(func(q *Plan) bool { q.Park = append(q.Park[:i:i], q.Park[i+1:]...); return true })
	}
	if p.Mode == "batch" {
		add(func(q *Plan) bool { q.Mode = "serial"; return true })
	}
	if p.Scen.Stall {
		add(func(q *Plan) bool { q.Scen.Stall = false; return true })
	}
	// tape: truncate, then zero
	if len(p.Tape) > 0 {
		add(func(q *Plan) bool { q.Tape = nil; return true })
		add(func(q *Plan) bool { q.Tape = q.Tape[:len(q.Tape)/2]; return true })
		nz := false
		for _, t := range p.Tape {
			if t != 0 {
				nz = true
			}
		}
		if nz {
			add(func(q *Plan) bool {
				for i := range q.Tape {
					q.Tape[i] = 0
				}
				return true
			})
			h := len(p.Tape) / 2
			add(func(q *Plan) bool {
				for i := h; i < len(q.Tape); i++ {
					q.Tape[i] = 0
				}
				return true
			})
			add(func(q *Plan) bool {
				for i := 0; i < h; i++ {
					q.Tape[i] = 0
				}
				return true
			})
		}
	}
	// per client: drop op chunks, then single ops; drop handler steps; drop faults
	for ci := range p.Scen.Clients {
		ci := ci
		n := len(p.Scen.Clients[ci].Ops)
		for chunk := n / 2; chunk >= 1; chunk /= 2 {
			for at := 0; at+chunk <= n; at += chunk {
				at, chunk := at, chunk
				add(func(q *Plan) bool {
					c := &q.Scen.Clients[ci]
					c.Ops = append(c.Ops[:at:at], c.Ops[at+chunk:]...)
					return true
				})
			}
			if chunk == 1 {
				break
			}
		}
		for hi := range p.Scen.Clients[ci].Handler {
			hi := hi
			add(func(q *Plan) bool {
				c := &q.Scen.Clients[ci]
				c.Handler = append(c.Handler[:hi:hi], c.Handler[hi+1:]...)
				return true
			})
		}
		if len(p.Scen.Clients[ci].WFault) > 0 {
			add(func(q *Plan) bool { q.Scen.Clients[ci].WFault = nil; return true })
		}
		// shrink bodies
		for oi, o := range p.Scen.Clients[ci].Ops {
			oi := oi
			if o.Pkt == nil {
				continue
			}
			if o.Pkt.Body.Fill > 16 {
				add(func(q *Plan) bool { b := &q.Scen.Clients[ci].Ops[oi].Pkt.Body; b.Fill /= 2; return true })
			}
			for si, sv := range o.Pkt.Body.S {
				si := si
				if len(sv) > 4 {
					add(func(q *Plan) bool {
						b := &q.Scen.Clients[ci].Ops[oi].Pkt.Body
						b.S[si] = b.S[si][:len(b.S[si])/2]
						return true
					})
				}
			}
			if len(o.Pkt.Body.Args) > 1 {
				add(func(q *Plan) bool {
					b := &q.Scen.Clients[ci].Ops[oi].Pkt.Body
					b.Args = b.Args[:len(b.Args)/2]
					return true
				})
			}
		}
	}
	// documents: drop later docs, users, groups, commands, services, filters
	if len(p.Scen.Docs) > 1 {
		for di := 1; di < len(p.Scen.Docs); di++ {
			di := di
			add(func(q *Plan) bool {
				q.Scen.Docs = append(q.Scen.Docs[:di:di], q.Scen.Docs[di+1:]...)
				var ctl []Ctl
				for _, c := range q.Scen.Ctl {
					if c.Kind == "publish" && c.N == di {
						continue
					}
					if c.Kind == "publish" && c.N > di {
						c.N--
					}
					ctl = append(ctl, c)
				}
				q.Scen.Ctl = ctl
				return true
			})
		}
	}
	for di := range p.Scen.Docs {
		di := di
		d := p.Scen.Docs[di]
		if len(d.Users) > 1 {
			for ui := range d.Users {
				ui := ui
				add(func(q *Plan) bool {
					dd := &q.Scen.Docs[di]
					dd.Users = append(dd.Users[:ui:ui], dd.Users[ui+1:]...)
					return true
				})
			}
		}
		if len(d.Secrets) > 1 {
			for si := range d.Secrets {
				si := si
				add(func(q *Plan) bool {
					dd := &q.Scen.Docs[di]
					dd.Secrets = append(dd.Secrets[:si:si], dd.Secrets[si+1:]...)
					return true
				})
			}
		}
		if len(d.PrefixDeny) > 0 {
			add(func(q *Plan) bool { q.Scen.Docs[di].PrefixDeny = nil; return true })
		}
		if len(d.PrefixAllow) > 0 {
			add(func(q *Plan) bool { q.Scen.Docs[di].PrefixAllow = nil; return true })
		}
		for ui, u := range d.Users {
			ui := ui
			if len(u.Groups) > 0 {
				add(func(q *Plan) bool { q.Scen.Docs[di].Users[ui].Groups = nil; return true })
			}
			for k := range u.Commands {
				k := k
				add(func(q *Plan) bool {
					uu := &q.Scen.Docs[di].Users[ui]
					uu.Commands = append(uu.Commands[:k:k], uu.Commands[k+1:]...)
					return true
				})
			}
			for k := range u.Services {
				k := k
				add(func(q *Plan) bool {
					uu := &q.Scen.Docs[di].Users[ui]
					uu.Services = append(uu.Services[:k:k], uu.Services[k+1:]...)
					return true
				})
			}
		}
	}
	if p.Scen.Loader != nil {
		for si := range p.Scen.Loader.Steps {
			si := si
			add(func(q *Plan) bool {
				l := q.Scen.Loader
				l.Steps = append(l.Steps[:si:si], l.Steps[si+1:]...)
				return len(l.Steps) > 0
			})
		}
	}
	return out
}
