// Package runner executes one plan inside a testing/synctest bubble.
package runner

import (
	"context"
	"crypto/sha256"
	"encoding/hex"
	"encoding/json"
	"fmt"
	"hash/fnv"
	"runtime"
	"sort"
	"strings"
	"sync/atomic"
	"testing"
	"testing/synctest"
	"time"

	tq "github.com/facebookincubator/tacquito"
	"github.com/prometheus/client_golang/prometheus"

	"tqsim/model"
	"tqsim/plan"
	"tqsim/sut"
	"tqsim/world"
)

// Result is everything a run produced.
type Result struct {
	Events        []world.Ev             `json:"-"`
	Faults        map[string]int         `json:"faults"`
	Probes        map[string]int         `json:"probes"`
	Steps         int                    `json:"steps"`
	SimNs         int64                  `json:"sim_ns"`
	Signature     string                 `json:"signature"`
	RawHash       string                 `json:"raw_hash"`
	CanonHash     string                 `json:"canon_hash"`
	ServeReturned bool                   `json:"serve_returned"`
	Completed     bool                   `json:"completed"`
	DrainAdvances int                    `json:"drain_advances"`
	Harness       string                 `json:"harness,omitempty"` // harness-level trouble (never a violation)
	Gauges        []map[string]float64   `json:"-"`                 // [0]=baseline, then at quiescent points, last=final
	GaugeSteps    []int                  `json:"-"`
	Replies       map[int][]model.Packet `json:"-"` // per connection, packets the server wrote (tap-parsed, still obfuscated)
	Tail          map[int][]byte         `json:"-"` // per connection, trailing bytes that do not form a packet
	RC            []RCEvent              `json:"-"` // real-client observations
	TapInputs     int                    `json:"tap_inputs"`
	Loader        *LoaderResult          `json:"-"`
	TapViol       []string               `json:"-"`
}

// RCEvent is one observation of a real tacquito.Client.
type RCEvent struct {
	Client     int
	Op         int
	MarshalErr string
	SendErr    string
	Reply      *model.Packet
}

// curWorld is the world of the run in progress (used by the yield hook).
var curWorld atomic.Pointer[world.World]

// yieldBuild is true in binaries built from the yield-instrumented copy.
var yieldBuild bool

var gaugeNames = []string{"serve_accepted", "handle_handlers", "sessions_active", "waitgroup_handle_routines_active"}

func readGauges() map[string]float64 {
	out := map[string]float64{}
	mfs, err := prometheus.DefaultGatherer.Gather()
	if err != nil {
		return out
	}
	for _, mf := range mfs {
		n := mf.GetName()
		for _, g := range gaugeNames {
			if strings.HasSuffix(n, g) && len(mf.GetMetric()) > 0 && mf.GetMetric()[0].GetGauge() != nil {
				out[g] = mf.GetMetric()[0].GetGauge().GetValue()
			}
		}
	}
	return out
}

type cli struct {
	i       int
	spec    *plan.ClientSpec
	conn    *world.Conn
	dialed  bool
	op      int
	rx      []byte
	nRep    int
	target  int
	waiting bool
	idle    bool
	real    *realClient
	// model-server side for real clients without a tacquito server
	srvRx   []byte
	srvReqs int
}

type pubReq struct {
	text []byte
	doc  int
	seq  int
}

type sched struct {
	probe      *sut.ProbeProvider
	pubQ       chan pubReq
	lookupCtx  context.Context
	lookups    int // lookups started and not finished
	evScan     int
	pubFlight  int
	p          *plan.Plan
	w          *world.World
	res        *Result
	clis       []*cli
	ctlDone    []bool
	cancel     context.CancelFunc
	cancelled  bool
	serveDone  chan struct{}
	hasServer  bool
	sib        *sibling
	ref        *sut.Ref
	publishSeq int
	tinyBudget int
	sig        []string
}

// Run executes the plan. It must be called from a test (synctest needs *testing.T).
func Run(t *testing.T, p *plan.Plan) (res *Result) {
	res = &Result{Replies: map[int][]model.Packet{}, Tail: map[int][]byte{}}
	defer func() {
		// synctest panics when the main bubble goroutine exits while other bubble
		// goroutines (the loader's update loop never exits) are still blocked.
		if r := recover(); r != nil {
			s := fmt.Sprint(r)
			if !strings.Contains(s, "deadlock") && !strings.Contains(s, "blocked goroutines") {
				panic(r)
			}
			if !res.Completed {
				// the bubble deadlocked before the run finished: something in the code under
				// test (or the harness) blocks forever. Never reported as a pass.
				res.Harness = "deadlock inside the bubble before the run completed: " + s
			}
		}
	}()
	if p.Scen.Server == "syslog-direct" {
		// real datagram socket to a scripted syslog daemon: outside the bubble, strictly
		// sequential (see syslogdirect.go)
		runSyslogDirect(p, res)
		return res
	}
	synctest.Test(t, func(t *testing.T) {
		run(p, res)
	})
	return res
}

func run(p *plan.Plan, res *Result) {
	w := world.New(world.NewTape(p.Tape), nil)
	curWorld.Store(w)
	defer curWorld.Store(nil)
	s := &sched{p: p, w: w, res: res, tinyBudget: 600}
	if p.Build == "yield" && !yieldBuild {
		res.Harness = "plan needs the yield-instrumented build"
		return
	}
	ctx, cancel := context.WithCancel(context.Background())
	s.cancel = cancel
	w.Quiet = p.Build == "race" && p.Family == "race-batches"
	lg := sut.NewLogger(w)
	s.recGauges("baseline")

	if p.Scen.Loader != nil {
		res.Loader = runLoader(ctx, p, w, lg)
		cancel()
		finish(s)
		return
	}

	var provider tq.SecretProvider
	switch p.Scen.Server {
	case "probe":
		pp := sut.NewProbeProvider(w, p.Scen.Clients)
		s.probe = pp
		provider = pp
	case "ref":
		var ex RefExtra
		decodeExtra(p.Scen.Extra, &ex)
		kc := sut.KeychainFromDocs(w, p.Scen.Docs, ex.KeychainFail)
		if len(p.Scen.Docs) == 0 {
			res.Harness = "ref scenario without documents"
			cancel()
			return
		}
		ref, err := sut.BuildRef(ctx, w, lg, kc, p.Scen.Format, p.Scen.Docs[0].Render(p.Scen.Format), p.Scen.Clients, p.Scen.Docs[0].XSpan)
		if err != nil {
			res.Harness = "build ref: " + err.Error()
			cancel()
			return
		}
		s.ref = ref
		provider = ref.Provider
	case "lookup":
		// configuration lookups against the real loader, no tacquito server
		if len(p.Scen.Docs) == 0 {
			res.Harness = "lookup scenario without documents"
			cancel()
			return
		}
		kc := sut.KeychainFromDocs(w, p.Scen.Docs, nil)
		ref, err := sut.BuildRef(ctx, w, lg, kc, p.Scen.Format, p.Scen.Docs[0].Render(p.Scen.Format), p.Scen.Clients, p.Scen.Docs[0].XSpan)
		if err != nil {
			res.Harness = "build ref: " + err.Error()
			cancel()
			return
		}
		s.ref = ref
		s.lookupCtx = ctx
		provider = ref.Provider
	case "none":
	default:
		res.Harness = "unknown server kind " + p.Scen.Server
		cancel()
		return
	}
	if p.Scen.Sibling > 0 && provider != nil && p.Scen.Server != "lookup" {
		s.sib = startSibling(ctx, p.Scen.Sibling)
		synctest.Wait()
		s.recGauges("sibling")
	}
	// parking sites are armed only now: the initial configuration load must not park
	w.Arm(p.Park)
	if provider != nil && p.Scen.Server != "lookup" {
		s.hasServer = true
		var sopts []tq.Option
		if p.Scen.Proxy {
			sopts = append(sopts, tq.SetUseProxy(true))
		}
		srv := tq.NewServer(lg, provider, sopts...)
		s.serveDone = make(chan struct{})
		go func() {
			err := srv.Serve(ctx, w.Listener)
			e := ""
			if err != nil {
				e = err.Error()
			}
			w.Rec(world.Ev{Actor: "serve", Kind: "serve-return", S: e})
			close(s.serveDone)
		}()
	}
	for i := range p.Scen.Clients {
		s.clis = append(s.clis, &cli{i: i, spec: &p.Scen.Clients[i]})
	}
	s.ctlDone = make([]bool, len(p.Scen.Ctl))
	s.loop()
	s.drain()
	finish(s)
}

func finish(s *sched) {
	w, res := s.w, s.res
	synctest.Wait()
	if s.sib != nil {
		s.recGauges("step") // the burst is over, the sibling's connections are still there
		s.sib.shutdown()
		synctest.Wait()
		select {
		case <-s.sib.done:
		default:
			res.Harness = "sibling server did not stop"
		}
	}
	res.Completed = true
	if s.probe != nil && !s.probe.KeysIntact() {
		w.Rec(world.Ev{Actor: "sched", Kind: "secret-mutated"})
	}
	if s.ref != nil {
		taken := s.ref.TakenSteps()
		for k, st := range taken {
			if st >= 0 {
				w.Rec(world.Ev{Actor: "loader", Kind: "config-taken", A: int64(k), B: int64(st)})
			}
		}
		if goSelectChoice(w.EventsSince(0), taken) {
			// the loader's loop found both a configuration and a lookup waiting when it became
			// free: which one its select statement takes is the Go runtime's choice, the one
			// source of nondeterminism in these runs the simulator does not own (see DESIGN)
			w.Probe("go-select-choice")
		}
		if mut := s.ref.MutatedPublished(); len(mut) > 0 {
			w.Rec(world.Ev{Actor: "loader", Kind: "published-mutated", S: fmt.Sprint(mut)})
		}
	}
	s.recGauges("final")
	for _, c := range s.clis {
		if c.real != nil {
			res.RC = append(res.RC, c.real.events...)
		}
	}
	if s.p.Property == "C04" || s.p.Property == "C02" {
		s.runTap()
	}
	seal(w, res)
}

// goSelectChoice: across some scheduler step boundary a published configuration had not
// been taken by the loader yet while an admission lookup was waiting too.
func goSelectChoice(evs []world.Ev, taken []int) bool {
	type span struct{ from, to int }
	var pubs, gets []span
	k := 1 // taken[0] is the initial document
	begin := map[int]int{}
	last := 0
	for _, e := range evs {
		if e.Step > last {
			last = e.Step
		}
		switch e.Kind {
		case "publish-done":
			if e.S == "" {
				to := 1 << 30
				if k < len(taken) && taken[k] >= 0 {
					to = taken[k]
				}
				pubs = append(pubs, span{e.Step, to})
				k++
			}
		case "get-begin":
			begin[e.Conn] = e.Step
		case "get-end":
			if b, ok := begin[e.Conn]; ok {
				gets = append(gets, span{b, e.Step})
				delete(begin, e.Conn)
			}
		}
	}
	for _, b := range begin {
		gets = append(gets, span{b, 1 << 30})
	}
	for _, p := range pubs {
		for _, g := range gets {
			// both waiting across the same step boundary
			lo, hi := p.from, p.to
			if g.from > lo {
				lo = g.from
			}
			if g.to < hi {
				hi = g.to
			}
			if hi > lo {
				return true
			}
		}
	}
	return false
}

// seal closes the history: result fields and the run's hashes.
func seal(w *world.World, res *Result) {
	res.Events = w.Events
	w.DropHistory() // leaked goroutines keep the world reachable; do not let them pin the history
	res.Faults = w.Faults
	res.Probes = w.Probes
	res.Steps = w.Step()
	res.SimNs = w.Now()
	if w.Overflow {
		res.Harness = "history overflow"
	}
	// signature: sequence of event kinds with targets and bucketed sizes
	h := fnv.New64a()
	raw := sha256.New()
	for _, e := range res.Events {
		if e.Kind == "alloc" {
			continue // a measurement, not part of the history
		}
		fmt.Fprintf(h, "%s|%d|%d;", e.Kind, e.Conn, bucket(e.A))
		es := e.S
		if e.Kind == "log" {
			// level and format string identify the call; the rendered text may depend on
			// the iteration order of maps inside the code under test (which prefix of
			// several matching ones is named in a debug line) and is not hashed
			if parts := strings.SplitN(es, "|", 3); len(parts) == 3 {
				es = parts[0] + "|" + parts[1]
			}
		}
		fmt.Fprintf(raw, "%d|%d|%s|%s|%d|%d|%d|%s|%x;", e.Step, e.T, e.Actor, e.Kind, e.Conn, e.A, e.B, es, e.Bytes)
	}
	res.Signature = fmt.Sprintf("%016x", h.Sum64())
	res.RawHash = hex.EncodeToString(raw.Sum(nil))
	// canonical hash: every actor's own sequence, actors in sorted order. Equal whenever
	// each actor saw the same things in the same order, even if goroutines released by one
	// scheduler step reached their seams in a different real-time order (GOMAXPROCS > 1).
	per := map[string]*strings.Builder{}
	var keys []string
	for _, e := range res.Events {
		k := fmt.Sprintf("%s:%d", e.Actor, e.Conn)
		if e.Actor == "log" || e.Actor == "park" || e.Actor == "sink" || e.Actor == "keychain" || e.Kind == "alloc" {
			continue // shared seams: their interleaving across connections is not per-actor
		}
		b := per[k]
		if b == nil {
			b = &strings.Builder{}
			per[k] = b
			keys = append(keys, k)
		}
		fmt.Fprintf(b, "%d|%d|%s|%d|%d|%s|%x;", e.Step, e.T, e.Kind, e.A, e.B, e.S, e.Bytes)
	}
	sort.Strings(keys)
	canon := sha256.New()
	for _, k := range keys {
		fmt.Fprintf(canon, "%s{%s}", k, per[k].String())
	}
	res.CanonHash = hex.EncodeToString(canon.Sum(nil))
}

func bucket(n int64) int {
	switch {
	case n <= 2:
		return int(n)
	case n < 12:
		return 3
	case n == 12:
		return 4
	case n < 107:
		return 5
	case n < 256:
		return 6
	case n < 4096:
		return 7
	default:
		return 8
	}
}

// runTap is the passive tap (DESIGN 3.6): everything observed on the simulated wire -
// whole packets, the partial packets that exist at segment boundaries and after
// truncation and corruption faults, and the deobfuscated bodies - is handed to the
// library's public decoders.
func (s *sched) runTap() {
	budget := 400
	seen := map[string]bool{}
	feed := func(b []byte) {
		if budget <= 0 || seen[string(b)] {
			return
		}
		seen[string(b)] = true
		budget--
		s.res.TapInputs++
		for _, f := range sut.TapDecode(b) {
			s.w.Rec(world.Ev{Actor: "tap", Kind: "tap-finding", S: f.Class + "|" + f.Sub + "|" + f.Detail})
		}
	}
	for ci, c := range s.clis {
		if !c.dialed || c.conn == nil {
			continue
		}
		// client -> server stream as written, cut at every delivery boundary
		var stream []byte
		for _, op := range c.spec.Ops {
			switch op.Kind {
			case "send":
				if !c.spec.Real {
					w := op.Pkt.Wire(c.spec.Key)
					feed(w)
					if len(w) >= model.HeaderLen {
						feed(w[:model.HeaderLen])
						body := op.Pkt.Body.Encode()
						feed(body)
						srvKey := c.spec.SrvKey
						h, _ := model.DecodeHeader(w)
						if len(w) > model.HeaderLen {
							feed(model.Obfuscate(h, srvKey, w[model.HeaderLen:]))
						}
					}
					stream = append(stream, w...)
				}
			case "raw":
				feed(op.Raw)
				stream = append(stream, op.Raw...)
			}
		}
		cum := 0
		for _, e := range s.w.Events {
			if e.Conn == ci+1 && e.Kind == "deliver" {
				cum += int(e.A)
				if cum <= len(stream) {
					// the partial packet that exists at this segment boundary
					start := 0
					for start+model.HeaderLen <= cum {
						h, _ := model.DecodeHeader(stream[start:])
						if h.Length > model.MaxBody || start+model.HeaderLen+int(h.Length) > cum {
							break
						}
						start += model.HeaderLen + int(h.Length)
					}
					feed(stream[start:cum])
				}
			}
		}
		// server -> client packets
		for _, rp := range s.res.Replies[ci+1] {
			feed(append(rp.H.Encode(), rp.Body...))
			feed(model.Obfuscate(rp.H, c.spec.SrvKey, rp.Body))
		}
	}
	for _, e := range s.w.Events {
		if e.Kind == "msrv-recv" || e.Kind == "msrv-send" {
			feed(e.Bytes)
		}
	}
}

// recGauges records the four in-flight gauges in the history.
func (s *sched) recGauges(tag string) {
	g := readGauges()
	b, _ := json.Marshal(g)
	s.w.Rec(world.Ev{Actor: "sched", Kind: "gauge", S: tag + "|" + string(b)})
}

type event struct {
	kind string
	i    int
	w    int // weight
}

func (s *sched) enabled(step int) []event {
	var ev []event
	for _, c := range s.clis {
		if !c.dialed {
			if step >= c.spec.NotBefore {
				ev = append(ev, event{"dial", c.i, 2})
			}
			continue
		}
		if c.conn == nil {
			continue
		}
		if c.real != nil {
			if c.conn.InflightS2C() > 0 {
				ev = append(ev, event{"deliver-s2c", c.i, 3})
			}
			if c.real.canStep() {
				ev = append(ev, event{"rc-step", c.i, 2})
			}
			if !s.hasServer && c.conn.InflightC2S() > 0 {
				ev = append(ev, event{"srv-step", c.i, 3})
			}
		} else if s.clientRunnable(c) {
			ev = append(ev, event{"cli-step", c.i, 2})
		}
		if s.hasServer && c.conn.InflightC2S() > 0 && !c.conn.ServerClosed() && !(c.spec.Scripted && c.op < len(c.spec.Ops)) {
			ev = append(ev, event{"deliver", c.i, 4})
		}
	}
	ids, sites := s.w.Parked()
	for k := range ids {
		if strings.HasPrefix(sites[k], "scope-keychain:") {
			continue // a keychain service that does not answer for the rest of the run: held until the drain
		}
		ev = append(ev, event{"release", k, 2})
	}
	for j, c := range s.p.Scen.Ctl {
		if s.ctlDone[j] || step < c.NotBefore {
			continue
		}
		if c.AfterOp > 0 {
			if c.AfterClient >= len(s.clis) || s.clis[c.AfterClient].op < c.AfterOp {
				continue
			}
		}
		if c.Kind == "publish" && s.p.Scen.Server == "lookup" && s.publishInFlight() {
			continue
		}
		ev = append(ev, event{"ctl", j, 1})
	}
	return ev
}

// publishInFlight: a published document has not been applied (or rejected) yet.
func (s *sched) publishInFlight() bool {
	evs := s.w.EventsSince(s.evScan)
	s.evScan += len(evs)
	for _, e := range evs {
		switch {
		case e.Kind == "publish":
			s.pubFlight++
		case e.Kind == "publish-done" && e.S != "":
			s.pubFlight--
		case e.Kind == "log" && strings.Contains(e.S, "updated all prefix filters"):
			if s.pubFlight > 0 {
				s.pubFlight--
			}
		}
	}
	return s.pubFlight > 0
}

func (s *sched) clientRunnable(c *cli) bool {
	if c.op >= len(c.spec.Ops) {
		return false
	}
	if c.waiting {
		if c.nRep >= c.target || c.conn.ServerClosed() {
			return true
		}
		return false
	}
	if c.idle {
		return c.conn.ServerClosed()
	}
	return true
}

func (s *sched) pick(ev []event) event {
	tot := 0
	for _, e := range ev {
		tot += e.w
	}
	k := s.w.Tape.Pick(tot)
	for _, e := range ev {
		if k < e.w {
			return e
		}
		k -= e.w
	}
	return ev[0]
}

func (s *sched) loop() {
	maxSteps := s.p.MaxSteps
	if maxSteps <= 0 {
		maxSteps = 3000
	}
	idleAdvances := 0
	synctest.Wait()
	for step := 0; step < maxSteps; step++ {
		s.w.SetStep(step)
		if step > 0 {
			// reactions of the system to the event applied in the previous step have
			// been recorded under that step's number
		}
		s.tap()
		if s.p.Property == "C20" {
			s.recGauges("step")
		}
		ev := s.enabled(step)
		canAdvance := s.nextDeadline() > 0
		if len(ev) == 0 {
			if s.workPending() && canAdvance && idleAdvances < 40 {
				idleAdvances++
				s.advance(false)
				synctest.Wait()
				continue
			}
			if s.workPending() && !canAdvance && s.futureWork(step) {
				continue // nothing to do in this step; later steps enable more (not_before)
			}
			break
		}
		if s.p.Scen.Stall && canAdvance {
			ev = append(ev, event{"advance", 0, 1})
		}
		if s.p.Mode == "batch" {
			// apply a tape-chosen subset back to back, with no Wait in between
			n := 1 + s.w.Tape.Pick(3)
			for k := 0; k < n && len(ev) > 0; k++ {
				e := s.pick(ev)
				s.apply(e)
				// remove applied event; later indices of "release" shift, so drop all releases after one
				var rest []event
				for _, x := range ev {
					if x == e || (e.kind == "release" && x.kind == "release") {
						continue
					}
					rest = append(rest, x)
				}
				ev = rest
			}
			synctest.Wait()
			continue
		}
		var m0 runtime.MemStats
		measure := s.p.Property == "C04" || s.p.Property == "C05"
		if measure {
			runtime.ReadMemStats(&m0)
		}
		s.apply(s.pick(ev))
		synctest.Wait()
		if measure {
			var m1 runtime.MemStats
			runtime.ReadMemStats(&m1)
			if d := int64(m1.TotalAlloc - m0.TotalAlloc); d > 1<<20 {
				s.w.Rec(world.Ev{Actor: "sched", Kind: "alloc", A: d})
			}
		}
	}
}

// futureWork: some client or control event becomes enabled at a later step.
func (s *sched) futureWork(step int) bool {
	for _, c := range s.clis {
		if !c.dialed && c.spec.NotBefore > step {
			return true
		}
	}
	for j, c := range s.p.Scen.Ctl {
		if !s.ctlDone[j] && c.NotBefore > step {
			return true
		}
	}
	return false
}

// workPending: is anything still expected to happen without further client action?
func (s *sched) workPending() bool {
	for j := range s.p.Scen.Ctl {
		if !s.ctlDone[j] {
			return true
		}
	}
	for _, c := range s.clis {
		if !c.dialed {
			return true
		}
		if c.real != nil {
			if !c.real.finished() {
				return true
			}
			continue
		}
		if c.op < len(c.spec.Ops) {
			return true
		}
	}
	return false
}

// nextDeadline returns the nearest armed deadline as fake ns from now (0 = none).
func (s *sched) nextDeadline() time.Duration {
	var best time.Duration
	consider := func(t time.Time) {
		if t.IsZero() {
			return
		}
		d := time.Until(t)
		if d <= 0 {
			d = 1
		}
		if best == 0 || d < best {
			best = d
		}
	}
	if s.hasServer && !s.w.Listener.Closed() {
		consider(s.w.Listener.Deadline())
	}
	for _, c := range s.w.Conns {
		if c.Accepted && !c.ServerClosed() {
			consider(c.ServerReadDeadline())
		}
	}
	return best
}

// nextDeadlineStrict is nextDeadline without the clamp: 0 when none lies in the future.
func (s *sched) nextDeadlineStrict() time.Duration {
	var best time.Duration
	consider := func(t time.Time) {
		if t.IsZero() {
			return
		}
		d := time.Until(t)
		if d > 0 && (best == 0 || d < best) {
			best = d
		}
	}
	if s.hasServer && !s.w.Listener.Closed() {
		consider(s.w.Listener.Deadline())
	}
	for _, c := range s.w.Conns {
		if c.Accepted && !c.ServerClosed() {
			consider(c.ServerReadDeadline())
		}
		consider(c.ClientReadDeadline())
	}
	return best
}

func (s *sched) advance(tapeChoice bool) {
	d := s.nextDeadline()
	if d <= 0 {
		return
	}
	if tapeChoice {
		switch s.w.Tape.Pick(5) {
		case 0:
			d = d - 1
		case 1:
			// exactly at
		case 2:
			d = d + 1
		case 3:
			d = d / 2
		case 4:
			d = time.Duration(1+s.w.Tape.Pick(2000)) * time.Millisecond
		}
		if d <= 0 {
			d = 1
		}
	}
	s.w.Rec(world.Ev{Actor: "sched", Kind: "advance", A: int64(d)})
	s.sleep(d)
}

// sleep advances the fake clock by d, stopping at every armed deadline on the way so
// that each expiry is observed at its own instant (endpoints have no timers of their
// own: see World.ExpireDeadlines).
func (s *sched) sleep(d time.Duration) {
	for d > 0 {
		nd := s.nextDeadlineStrict()
		if nd > 0 && nd < d {
			time.Sleep(nd)
			d -= nd
			s.w.ExpireDeadlines()
			synctest.Wait()
			continue
		}
		time.Sleep(d)
		d = 0
	}
	s.w.ExpireDeadlines()
}

func (s *sched) apply(e event) {
	switch e.kind {
	case "dial":
		c := s.clis[e.i]
		addr := sut.AddrOf(c.spec, c.i)
		if s.p.Scen.Server == "lookup" {
			c.dialed = true
			c.op = len(c.spec.Ops)
			prov := s.ref.Provider
			ctx := s.lookupCtx
			s.w.Rec(world.Ev{Actor: "sched", Kind: "lookup", Conn: c.i + 1, S: addr.String()})
			go func() { prov.Get(ctx, addr) }()
			return
		}
		c.conn = s.w.NewConn(c.i+1, addr, c.spec.Real)
		c.conn.EOFWithData = c.spec.EOFData
		c.conn.WFault = c.spec.WFault
		c.dialed = true
		if c.spec.Real {
			c.real = newRealClient(s, c)
		}
		if s.hasServer {
			s.w.Listener.Dial(c.conn)
		} else {
			s.w.Rec(world.Ev{Actor: "sched", Kind: "dial", Conn: c.conn.ID, S: addr.String()})
		}
	case "cli-step":
		s.clientStep(s.clis[e.i])
	case "deliver":
		c := s.clis[e.i]
		c.conn.DeliverC2S(s.deliverSize(c.conn.PeekInflightC2S()))
	case "deliver-s2c":
		c := s.clis[e.i]
		n := c.conn.InflightS2C()
		c.conn.DeliverS2C(s.sizeChoice(n, 12))
	case "rc-step":
		s.clis[e.i].real.step()
	case "srv-step":
		s.modelServerStep(s.clis[e.i])
	case "release":
		s.w.Release(e.i)
	case "advance":
		s.advance(true)
	case "ctl":
		s.ctl(e.i)
	}
}

// deliverSize chooses how many in-flight bytes reach the server in this step: biased
// to single bytes, to packet and header boundaries +-1, to the 107-byte buffer size,
// and to "everything".
func (s *sched) deliverSize(inflight []byte) int {
	n := len(inflight)
	// distance to the end of the header / of the first packet in flight (best effort:
	// in-flight bytes may start mid-packet; boundaries are then merely odd sizes)
	hdrEnd, pktEnd := 12, 0
	if n >= 12 {
		if h, err := model.DecodeHeader(inflight); err == nil && h.Length <= model.MaxBody {
			pktEnd = 12 + int(h.Length)
		}
	}
	return s.sizeChoiceB(n, hdrEnd, pktEnd)
}

func (s *sched) sizeChoice(n int, b int) int { return s.sizeChoiceB(n, b, 0) }

func (s *sched) sizeChoiceB(n, b1, b2 int) int {
	if n <= 1 {
		return n
	}
	clamp := func(k int) int {
		if k < 1 {
			return 1
		}
		if k > n {
			return n
		}
		return k
	}
	c := s.w.Tape.Pick(16)
	var k int
	switch c {
	case 0, 1:
		k = 1
	case 2:
		k = 2
	case 3:
		k = b1 - 1
	case 4:
		k = b1
	case 5:
		k = b1 + 1
	case 6:
		k = b2 - 1
	case 7:
		k = b2
	case 8:
		k = b2 + 1
	case 9:
		k = 106 + s.w.Tape.Pick(3)
	case 10:
		k = 1 + s.w.Tape.Pick(n)
	case 11:
		k = n - 1
	default:
		k = n
	}
	k = clamp(k)
	if k*16 < n {
		// tiny segments of a large transfer are budgeted so that runs stay bounded
		if s.tinyBudget <= 0 {
			return clamp(n/4 + 1)
		}
		s.tinyBudget--
	}
	return k
}

func (s *sched) clientStep(c *cli) {
	if c.waiting {
		c.waiting = false
		c.op++
		return
	}
	if c.idle {
		c.idle = false
		c.op++
		return
	}
	op := c.spec.Ops[c.op]
	switch op.Kind {
	case "send":
		if !c.conn.ClientClosed() {
			b := append(c.spec.ProxyLine(), op.Pkt.Wire(c.spec.Key)...)
			c.conn.ClientWrite(b)
			s.w.Rec(world.Ev{Actor: "cli", Kind: "cli-send", Conn: c.conn.ID, A: int64(len(b)), B: int64(c.op)})
		}
		c.op++
	case "raw":
		if !c.conn.ClientClosed() {
			c.conn.ClientWrite(op.Raw)
			s.w.Rec(world.Ev{Actor: "cli", Kind: "cli-send", Conn: c.conn.ID, A: int64(len(op.Raw)), B: int64(c.op)})
		}
		c.op++
	case "await":
		n := op.N
		if n <= 0 {
			n = 1
		}
		c.target = c.nRep + n
		c.waiting = true
		if c.nRep >= c.target {
			c.waiting = false
			c.op++
		}
	case "await-total":
		c.target = op.N
		c.waiting = true
		if c.nRep >= c.target {
			c.waiting = false
			c.op++
		}
	case "idle":
		c.idle = true
	case "pace":
		if n := c.conn.InflightC2S(); n > op.Keep && !c.conn.ServerClosed() {
			c.conn.DeliverC2S(n - op.Keep)
			synctest.Wait()
		}
		if op.N > 0 {
			d := time.Duration(op.N) * time.Millisecond
			s.w.Rec(world.Ev{Actor: "sched", Kind: "advance", A: int64(d)})
			s.sleep(d)
			synctest.Wait()
		}
		c.op++
	case "close":
		c.conn.ClientClose()
		c.op++
	case "reset":
		c.conn.ClientReset()
		c.op++
	default:
		c.op++
	}
}

// tap parses what the server has written on each model-client connection.
func (s *sched) tap() {
	for _, c := range s.clis {
		if !c.dialed || c.real != nil || c.conn == nil {
			continue
		}
		b := c.conn.ClientTake()
		if len(b) == 0 {
			continue
		}
		c.rx = append(c.rx, b...)
		for len(c.rx) >= model.HeaderLen {
			h, _ := model.DecodeHeader(c.rx)
			if h.Length > 1<<20 {
				break
			}
			tot := model.HeaderLen + int(h.Length)
			if len(c.rx) < tot {
				break
			}
			body := append([]byte(nil), c.rx[model.HeaderLen:tot]...)
			s.res.Replies[c.conn.ID] = append(s.res.Replies[c.conn.ID], model.Packet{H: h, Body: body})
			c.rx = c.rx[tot:]
			c.nRep++
		}
		s.res.Tail[c.conn.ID] = append([]byte(nil), c.rx...)
	}
}

func (s *sched) ctl(j int) {
	c := s.p.Scen.Ctl[j]
	s.ctlDone[j] = true
	switch c.Kind {
	case "cancel":
		s.w.Rec(world.Ev{Actor: "sched", Kind: "cancel"})
		s.cancelled = true
		s.cancel()
	case "accept-fault":
		s.w.Listener.InjectAcceptFault(c.Arg)
	case "close-listener":
		s.w.Rec(world.Ev{Actor: "sched", Kind: "close-listener"})
		s.w.Listener.Close()
	case "publish":
		if s.ref == nil || c.N >= len(s.p.Scen.Docs) {
			return
		}
		text := s.p.Scen.Docs[c.N].Render(s.p.Scen.Format)
		s.publishSeq++
		seq := s.publishSeq
		s.w.Rec(world.Ev{Actor: "sched", Kind: "publish", A: int64(c.N), B: int64(seq)})
		// like the file watcher, one goroutine feeds documents to the loader front end,
		// one after the other
		if s.pubQ == nil {
			s.pubQ = make(chan pubReq, 64)
			src := s.ref.Src
			go func() {
				for rq := range s.pubQ {
					err := src.Unmarshal(rq.text)
					e := ""
					if err != nil {
						e = err.Error()
					}
					s.w.Rec(world.Ev{Actor: "loader", Kind: "publish-done", A: int64(rq.doc), B: int64(rq.seq), S: e})
				}
			}()
		}
		s.pubQ <- pubReq{text: text, doc: c.N, seq: seq}
	}
}

// drain ends the run: no seam stays parked, the context is cancelled, and the clock is
// advanced from deadline to deadline until Serve returns (bounded).
func (s *sched) drain() {
	s.w.SetStep(s.w.Step() + 1)
	synctest.Wait()
	s.tap()
	s.w.Rec(world.Ev{Actor: "sched", Kind: "drain"})
	s.w.Disarm()
	ids, _ := s.w.Parked()
	for range ids {
		s.w.Release(0)
	}
	synctest.Wait()
	for _, c := range s.clis {
		if c.real != nil {
			c.real.abort()
		}
	}
	if !s.hasServer {
		synctest.Wait()
		if s.p.Scen.Server == "lookup" {
			s.cancel()
		}
		return
	}
	if !s.cancelled {
		s.w.Rec(world.Ev{Actor: "sched", Kind: "cancel"})
		s.cancelled = true
		s.cancel()
	}
	for i := 0; i < 12; i++ {
		synctest.Wait()
		s.tap()
		select {
		case <-s.serveDone:
			s.res.ServeReturned = true
			return
		default:
		}
		d := s.nextDeadline()
		if d <= 0 {
			d = time.Second
		}
		s.res.DrainAdvances++
		s.w.Rec(world.Ev{Actor: "sched", Kind: "advance", A: int64(d)})
		s.sleep(d)
	}
	synctest.Wait()
	select {
	case <-s.serveDone:
		s.res.ServeReturned = true
	default:
	}
}

// SortedKeys helps deterministic reporting.
func SortedKeys(m map[string]int) []string {
	ks := make([]string, 0, len(m))
	for k := range m {
		ks = append(ks, k)
	}
	sort.Strings(ks)
	return ks
}
