package runner

import (
	"bytes"
	"context"
	"fmt"
	"log/syslog"
	"net"
	"os"
	"path/filepath"
	"syscall"

	tq "github.com/facebookincubator/tacquito"
	tqsyslog "github.com/facebookincubator/tacquito/cmds/server/config/accounters/syslog"

	"tqsim/model"
	"tqsim/plan"
	"tqsim/sut"
	"tqsim/world"
)

// The syslog-backed accounter writes through a concrete *log/syslog.Writer, which offers
// no seam below the operating system: the simulated sink of this family is a real unix
// datagram socket in a private directory, read by the harness. Everything is sequential
// (one caller, non-blocking reads after each step), so a plan replays exactly. The fault
// is the one a deployment meets: the daemon goes away (socket closed and unlinked; the
// writer's built-in reconnect fails) and comes back (same path, new socket).
//
// Ops of client 0: send (an accounting request handed to the accounter's Handle),
// sink-down, sink-up.

type slDaemon struct {
	path string
	uc   *net.UnixConn
}

func (d *slDaemon) up() error {
	if d.uc != nil {
		return nil
	}
	os.Remove(d.path)
	uc, err := net.ListenUnixgram("unixgram", &net.UnixAddr{Name: d.path, Net: "unixgram"})
	if err != nil {
		return err
	}
	d.uc = uc
	return nil
}

func (d *slDaemon) down() {
	if d.uc != nil {
		d.uc.Close()
		d.uc = nil
	}
	os.Remove(d.path)
}

// drain returns the datagrams queued at the daemon, without blocking.
func (d *slDaemon) drain() [][]byte {
	var out [][]byte
	if d.uc == nil {
		return nil
	}
	rc, err := d.uc.SyscallConn()
	if err != nil {
		return nil
	}
	buf := make([]byte, 1<<18)
	for {
		n := -1
		rc.Read(func(fd uintptr) bool {
			k, _, e := syscall.Recvfrom(int(fd), buf, syscall.MSG_DONTWAIT)
			if e == nil {
				n = k
			}
			return true
		})
		if n < 0 {
			return out
		}
		out = append(out, append([]byte(nil), buf[:n]...))
	}
}

// slLogger is the accounter's event logger.
type slLogger struct{ w *world.World }

func (l slLogger) Infof(format string, args ...interface{}) {
	l.w.Rec(world.Ev{Actor: "log", Kind: "log", S: "info|" + format + "|" + fmt.Sprintf(format, args...)})
}
func (l slLogger) Errorf(format string, args ...interface{}) {
	l.w.Rec(world.Ev{Actor: "log", Kind: "log", S: "error|" + format + "|" + fmt.Sprintf(format, args...)})
}

// slResponse is the tacquito.Response the accounter answers into.
type slResponse struct {
	w   *world.World
	d   *slDaemon
	idx int
}

func (r *slResponse) sinkNow() {
	for _, dg := range r.d.drain() {
		msg := dg
		if k := bytes.Index(dg, []byte("]: ")); k >= 0 {
			msg = dg[k+3:]
		}
		msg = bytes.TrimSuffix(msg, []byte("\n"))
		r.w.Rec(world.Ev{Actor: "sink", Kind: "sink", Conn: 1, A: int64(r.idx), S: string(msg)})
	}
}

func (r *slResponse) Reply(v tq.EncoderDecoder) (int, error) {
	r.sinkNow() // what reached the daemon before this reply
	b, err := v.MarshalBinary()
	if err != nil {
		r.w.Rec(world.Ev{Actor: "conn", Kind: "reply-result", Conn: 1, A: -1, S: err.Error()})
		return 0, err
	}
	r.w.Rec(world.Ev{Actor: "conn", Kind: "sl-reply", Conn: 1, A: int64(r.idx), Bytes: b})
	return len(b), nil
}
func (r *slResponse) ReplyWithContext(ctx context.Context, v tq.EncoderDecoder, writers ...tq.Writer) (int, error) {
	return r.Reply(v)
}
func (r *slResponse) Write(p *tq.Packet) (int, error) {
	r.sinkNow()
	r.w.Rec(world.Ev{Actor: "conn", Kind: "sl-reply", Conn: 1, A: int64(r.idx), Bytes: append([]byte(nil), p.Body...)})
	return len(p.Body), nil
}
func (r *slResponse) Next(next tq.Handler) {
	r.w.Rec(world.Ev{Actor: "conn", Kind: "next", Conn: 1, A: int64(r.idx)})
}
func (r *slResponse) RegisterWriter(tq.Writer)    {}
func (r *slResponse) Context(ctx context.Context) {}

func runSyslogDirect(p *plan.Plan, res *Result) {
	w := world.New(world.NewTape(p.Tape), nil)
	defer func() {
		// real time is not part of this family's history
		for i := range w.Events {
			w.Events[i].T = 0
		}
		res.Completed = true
		seal(w, res)
		res.SimNs = 0
	}()
	if len(p.Scen.Clients) != 1 {
		res.Harness = "syslog-direct needs exactly one client"
		return
	}
	dir, err := os.MkdirTemp("", "tqsl-")
	if err != nil {
		res.Harness = "syslog-direct: " + err.Error()
		return
	}
	defer os.RemoveAll(dir)
	d := &slDaemon{path: filepath.Join(dir, "log")}
	if err := d.up(); err != nil {
		res.Harness = "syslog-direct: " + err.Error()
		return
	}
	defer d.down()
	wr, err := syslog.Dial("unixgram", d.path, syslog.LOG_INFO|syslog.LOG_LOCAL3, "tacquito")
	if err != nil {
		res.Harness = "syslog-direct: dial: " + err.Error()
		return
	}
	defer wr.Close()
	acc := tqsyslog.New(slLogger{w}, wr).New(nil)
	cs := &p.Scen.Clients[0]
	for i, op := range cs.Ops {
		w.SetStep(i + 1)
		switch op.Kind {
		case "sink-down":
			d.down()
			w.Fault("sink-down")
			w.Rec(world.Ev{Actor: "sched", Kind: "sink-down"})
		case "sink-up":
			if err := d.up(); err != nil {
				res.Harness = "syslog-direct: " + err.Error()
				return
			}
			w.Rec(world.Ev{Actor: "sched", Kind: "sink-up"})
		case "send":
			ps := op.Pkt
			body := ps.Body.Encode()
			h := tq.Header{Version: tq.Version{MajorVersion: ps.Ver >> 4, MinorVersion: ps.Ver & 0x0f}, Type: tq.HeaderType(ps.Type), SeqNo: tq.SequenceNumber(ps.Seq),
				Flags: tq.HeaderFlag(ps.Flags), SessionID: tq.SessionID(ps.Session), Length: uint32(len(body))}
			mh := sut.LibHeader(h)
			w.Rec(world.Ev{Actor: "conn", Kind: "sl-request", Conn: 1, A: int64(i), S: sut.J(mh), Bytes: body})
			resp := &slResponse{w: w, d: d, idx: i}
			func() {
				defer func() {
					if r := recover(); r != nil {
						w.Rec(world.Ev{Actor: "conn", Kind: "panic", Conn: 1, S: fmt.Sprint(r)})
					}
				}()
				acc.Handle(resp, tq.Request{Header: h, Body: append([]byte(nil), body...), Context: context.Background()})
			}()
			resp.sinkNow() // anything written after the last reply
			w.Rec(world.Ev{Actor: "conn", Kind: "sl-request-end", Conn: 1, A: int64(i)})
		}
	}
	_ = model.HeaderLen
}
