package runner

import (
	"bytes"
	"encoding/json"

	tq "github.com/facebookincubator/tacquito"

	"tqsim/model"
	"tqsim/plan"
	"tqsim/sut"
	"tqsim/world"
)

// RefExtra is the Scenario.Extra payload of reference-server scenarios.
type RefExtra struct {
	KeychainFail []string `json:"keychain_fail,omitempty"`
}

func decodeExtra(raw json.RawMessage, v interface{}) {
	if len(raw) > 0 {
		_ = json.Unmarshal(raw, v)
	}
}

// realClient drives a real tacquito.Client from a script, one operation per rc-step.
type realClient struct {
	s      *sched
	c      *cli
	client *tq.Client
	stepCh chan int
	busy   bool
	done   bool
	events []RCEvent
}

func newRealClient(s *sched, c *cli) *realClient {
	rc := &realClient{s: s, c: c, stepCh: make(chan int)}
	cl, err := tq.NewClient(tq.SetClientConn(c.conn.B, c.spec.Key))
	if err != nil {
		s.res.Harness = "real client: " + err.Error()
		rc.done = true
		return rc
	}
	rc.client = cl
	go rc.loop()
	return rc
}

func (rc *realClient) canStep() bool {
	return !rc.done && !rc.busyNow() && rc.c.op < len(rc.c.spec.Ops)
}
func (rc *realClient) finished() bool {
	return rc.done || (rc.c.op >= len(rc.c.spec.Ops) && !rc.busyNow())
}

func (rc *realClient) busyNow() bool { return rc.busy }

func (rc *realClient) step() {
	rc.busy = true
	rc.stepCh <- rc.c.op
	rc.c.op++
}

func (rc *realClient) abort() {
	if rc.client != nil && !rc.done {
		rc.c.conn.ServerSideClose()
		rc.c.conn.ClientClose()
	}
}

func (rc *realClient) loop() {
	// replies the caller still holds, re-read after every later exchange
	type kept struct {
		op  int
		rep *tq.Packet
		h   tq.Header
		was []byte
	}
	var held []kept
	recheck := func() {
		for k := range held {
			hk := &held[k]
			if hk.rep != nil && (!bytes.Equal(hk.rep.Body, hk.was) || *hk.rep.Header != hk.h) {
				rc.s.w.Rec(world.Ev{Actor: "rc", Kind: "rc-retained-reply-changed", Conn: rc.c.conn.ID, A: int64(hk.op)})
				hk.rep = nil
			}
		}
	}
	var reused *tq.Packet
	var recv sut.Receivers
	for i := range rc.stepCh {
		op := rc.c.spec.Ops[i]
		ev := RCEvent{Client: rc.c.i, Op: i}
		switch op.Kind {
		case "send":
			p, err := buildLibPacket(op.Pkt)
			if err == nil && rc.c.spec.ReusePkt {
				// a caller that keeps one packet object and refills it for every request
				if reused == nil {
					reused = p
				} else {
					*reused.Header = tq.Header{Version: p.Header.Version, Type: p.Header.Type, SeqNo: p.Header.SeqNo,
						Flags: p.Header.Flags, SessionID: p.Header.SessionID, Length: reused.Header.Length}
					reused.Body = p.Body
					p = reused
				}
			}
			if err == nil {
				// the cleartext the library produced (crypt works in place on p.Body)
				rc.s.w.Rec(world.Ev{Actor: "rc", Kind: "rc-clear", Conn: rc.c.conn.ID, A: int64(i), Bytes: append([]byte(nil), p.Body...)})
			}
			if err != nil {
				ev.MarshalErr = err.Error()
				rc.s.w.Rec(world.Ev{Actor: "rc", Kind: "rc-marshal-err", Conn: rc.c.conn.ID, A: int64(i), S: err.Error()})
				break
			}
			if op.Pkt.Only {
				// pipelining: the request goes out, the reply is collected by a later Send
				if err := rc.client.SendOnly(p); err != nil {
					ev.SendErr = err.Error()
					rc.s.w.Rec(world.Ev{Actor: "rc", Kind: "rc-send-err", Conn: rc.c.conn.ID, A: int64(i), S: err.Error()})
				} else {
					rc.s.w.Rec(world.Ev{Actor: "rc", Kind: "rc-sent-only", Conn: rc.c.conn.ID, A: int64(i)})
				}
				break
			}
			rep, err := rc.client.Send(p)
			if err != nil {
				ev.SendErr = err.Error()
				rc.s.w.Rec(world.Ev{Actor: "rc", Kind: "rc-send-err", Conn: rc.c.conn.ID, A: int64(i), S: err.Error()})
				break
			}
			mp := model.Packet{H: sut.LibHeader(*rep.Header), Body: append([]byte(nil), rep.Body...)}
			ev.Reply = &mp
			rc.s.w.Rec(world.Ev{Actor: "rc", Kind: "rc-reply", Conn: rc.c.conn.ID, A: int64(i), S: sut.J(mp.H), Bytes: mp.Body})
			if why := recv.Header(*rep.Header); why != "" {
				rc.s.w.Rec(world.Ev{Actor: "rc", Kind: "receiver-reuse-differs", Conn: rc.c.conn.ID, A: int64(i), S: why})
			}
			recheck()
			held = append(held, kept{op: i, rep: rep, h: *rep.Header, was: mp.Body})
			// device code decodes the reply body with the library decoder of the
			// packet type's reply kind
			if kind := replyKindOf(uint8(rep.Header.Type)); kind != "" {
				v := sut.NewLib(kind)
				if err := tq.Unmarshal(rep.Body, v); err != nil {
					rc.s.w.Rec(world.Ev{Actor: "rc", Kind: "rc-decode-err", Conn: rc.c.conn.ID, A: int64(i), S: err.Error()})
				} else {
					d := sut.FromLib(v)
					rc.s.w.Rec(world.Ev{Actor: "rc", Kind: "rc-decoded", Conn: rc.c.conn.ID, A: int64(i), S: sut.J(d)})
					if why := recv.Body(kind, rep.Body, d); why != "" {
						rc.s.w.Rec(world.Ev{Actor: "rc", Kind: "receiver-reuse-differs", Conn: rc.c.conn.ID, A: int64(i), S: why})
					}
				}
			}
		case "close":
			recheck()
			rc.client.Close()
		}
		rc.events = append(rc.events, ev)
		rc.busy = false
	}
}

func replyKindOf(typ uint8) string {
	switch typ {
	case model.TypeAuthen:
		return model.KAuthenReply
	case model.TypeAuthor:
		return model.KAuthorReply
	case model.TypeAcct:
		return model.KAcctReply
	}
	return ""
}

// buildLibPacket builds the request with the library's own constructors and encoders.
func buildLibPacket(ps *plan.PktSpec) (*tq.Packet, error) {
	var body []byte
	if ps.Body.Kind == "raw" {
		body = ps.Body.Encode()
	} else {
		v, err := sut.ToLib(ps.Body)
		if err != nil {
			return nil, err
		}
		body, err = v.MarshalBinary()
		if err != nil {
			return nil, err
		}
	}
	seq := int(ps.Seq)
	if ps.SeqWide > 0 {
		seq = int(ps.SeqWide)
	}
	h := tq.NewHeader(
		tq.SetHeaderVersion(tq.Version{MajorVersion: ps.Ver >> 4, MinorVersion: ps.Ver & 0x0f}),
		tq.SetHeaderType(tq.HeaderType(ps.Type)),
		tq.SetHeaderSeqNo(seq),
		tq.SetHeaderFlag(tq.HeaderFlag(ps.Flags)),
		tq.SetHeaderSessionID(tq.SessionID(ps.Session)),
	)
	if ps.BodyFirst {
		return tq.NewPacket(tq.SetPacketBody(body), tq.SetPacketHeader(h)), nil
	}
	return tq.NewPacket(tq.SetPacketHeader(h), tq.SetPacketBody(body)), nil
}

// modelServerStep lets the model server consume what a real client wrote and answer
// per the script (scenarios without a tacquito server).
func (s *sched) modelServerStep(c *cli) {
	c.srvRx = append(c.srvRx, c.conn.ServerSideTake()...)
	for len(c.srvRx) >= model.HeaderLen {
		h, _ := model.DecodeHeader(c.srvRx)
		if h.Length > 1<<20 {
			return
		}
		tot := model.HeaderLen + int(h.Length)
		if len(c.srvRx) < tot {
			return
		}
		wire := append([]byte(nil), c.srvRx[:tot]...)
		c.srvRx = c.srvRx[tot:]
		s.w.Rec(world.Ev{Actor: "msrv", Kind: "msrv-recv", Conn: c.conn.ID, A: int64(c.srvReqs), Bytes: wire})
		if c.srvReqs < len(c.spec.SrvReplies) {
			r := c.spec.SrvReplies[c.srvReqs]
			if r.Pkt != nil {
				b := r.Pkt.Wire(c.spec.SrvKey)
				c.conn.ServerSideWrite(b)
				s.w.Rec(world.Ev{Actor: "msrv", Kind: "msrv-send", Conn: c.conn.ID, A: int64(c.srvReqs), Bytes: b})
			}
			if r.Close {
				c.conn.ServerSideClose()
			}
		}
		c.srvReqs++
	}
}
