package runner

import (
	"context"
	"io"
	"net"
	"sync"
	"time"

	tq "github.com/facebookincubator/tacquito"
)

// sibling is a second tacquito.Server in the same process (a process that serves two
// listeners, e.g. one per address family, runs two Server values over the same exported
// gauges). It holds a fixed number of idle connections open for the whole run and takes
// no part in the schedule: its listener, connections, provider and logger record
// nothing. The in-flight gauges must count its connections next to the main server's.
type sibling struct {
	l     *sibListener
	conns []*sibConn
	done  chan struct{}
}

type nopLogger struct{}

func (nopLogger) Infof(ctx context.Context, format string, args ...interface{})      {}
func (nopLogger) Errorf(ctx context.Context, format string, args ...interface{})     {}
func (nopLogger) Debugf(ctx context.Context, format string, args ...interface{})     {}
func (nopLogger) Record(ctx context.Context, r map[string]string, obscure ...string) {}

type sibProvider struct{}

func (sibProvider) Get(ctx context.Context, remote net.Addr) ([]byte, tq.Handler, error) {
	return []byte("sibling"), tq.HandlerFunc(func(tq.Response, tq.Request) {}), nil
}

type sibListener struct {
	ctx   context.Context
	queue chan net.Conn
	once  sync.Once
	stop  chan struct{}
}

func (l *sibListener) Accept() (net.Conn, error) {
	select {
	case c := <-l.queue:
		return c, nil
	case <-l.ctx.Done():
	case <-l.stop:
	}
	return nil, &net.OpError{Op: "accept", Net: "tcp", Err: net.ErrClosed}
}
func (l *sibListener) Close() error                { l.once.Do(func() { close(l.stop) }); return nil }
func (l *sibListener) Addr() net.Addr              { return &net.TCPAddr{IP: net.ParseIP("192.0.2.2"), Port: 49} }
func (l *sibListener) SetDeadline(time.Time) error { return nil }

// sibConn is an idle connection: reads block until it is closed.
type sibConn struct {
	n      int
	once   sync.Once
	closed chan struct{}
}

func (c *sibConn) Read(b []byte) (int, error)  { <-c.closed; return 0, io.EOF }
func (c *sibConn) Write(b []byte) (int, error) { return len(b), nil }
func (c *sibConn) Close() error                { c.once.Do(func() { close(c.closed) }); return nil }
func (c *sibConn) LocalAddr() net.Addr         { return &net.TCPAddr{IP: net.ParseIP("192.0.2.2"), Port: 49} }
func (c *sibConn) RemoteAddr() net.Addr {
	return &net.TCPAddr{IP: net.IPv4(198, 51, 100, byte(1+c.n)), Port: 50000 + c.n}
}
func (c *sibConn) SetDeadline(time.Time) error      { return nil }
func (c *sibConn) SetReadDeadline(time.Time) error  { return nil }
func (c *sibConn) SetWriteDeadline(time.Time) error { return nil }

func startSibling(ctx context.Context, n int) *sibling {
	sb := &sibling{l: &sibListener{ctx: ctx, queue: make(chan net.Conn, n), stop: make(chan struct{})}, done: make(chan struct{})}
	for i := 0; i < n; i++ {
		c := &sibConn{n: i, closed: make(chan struct{})}
		sb.conns = append(sb.conns, c)
		sb.l.queue <- c
	}
	srv := tq.NewServer(nopLogger{}, sibProvider{})
	go func() {
		srv.Serve(ctx, sb.l)
		close(sb.done)
	}()
	return sb
}

// shutdown hangs up the sibling's connections and stops its listener.
func (sb *sibling) shutdown() {
	sb.l.Close()
	for _, c := range sb.conns {
		c.Close()
	}
}
