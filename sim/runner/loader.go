package runner

import (
	"context"
	"os"
	"path/filepath"
	"strings"

	"github.com/facebookincubator/tacquito/cmds/server/config"

	"tqsim/plan"
	"tqsim/sut"
	"tqsim/world"
)

// LoaderResult is filled by configuration-history scenarios.
type LoaderResult struct {
	Steps []LoaderStepResult
}

// LoaderStepResult compares one long-lived loader with a fresh one on the same bytes.
type LoaderStepResult struct {
	Step     int
	Bytes    int
	OldErr   string
	FreshErr string
	Old      string   // canonical JSON of the value the long-lived loader published
	Fresh    string   // canonical JSON of the value a fresh loader published
	Diff     []string // top-level parts that differ
	Mutated  []int    // steps whose earlier published value no longer equals its snapshot
}

// TornText applies a disk fault to the document text: what the loader reads is a prefix
// of the new file, the new file over the old one's tail, nothing, or noise.
func TornText(prev, text []byte, tear string, n int) []byte {
	switch tear {
	case "short":
		if n > len(text) {
			n = len(text)
		}
		return text[:n]
	case "stale-tail":
		if n > len(text) {
			n = len(text)
		}
		out := append([]byte(nil), text[:n]...)
		if len(prev) > n {
			out = append(out, prev[n:]...)
		}
		return out
	case "empty":
		return []byte{}
	case "garbage":
		out := make([]byte, n%200+1)
		for i := range out {
			out[i] = byte(33 + (i*31+n)%90)
		}
		return out
	}
	return text
}

func runLoaderHistory(ctx context.Context, p *plan.Plan, w *world.World, lg *sut.Logger) *LoaderResult {
	res := &LoaderResult{}
	ls := p.Scen.Loader
	format := p.Scen.Format
	src := sut.NewSource(format)
	dir, err := os.MkdirTemp("", "tqsim-cfg-")
	if err != nil {
		return res
	}
	defer os.RemoveAll(dir)
	path := filepath.Join(dir, "tacquito."+format)
	apply := func(s sut.Source, via string, text []byte) (config.ServerConfig, error) {
		var err error
		if via == "load" {
			if werr := os.WriteFile(path, text, 0o644); werr != nil {
				return config.ServerConfig{}, werr
			}
			err = s.Load(path)
		} else {
			err = s.Unmarshal(text)
		}
		if err != nil {
			// a failed load must not have published anything
			select {
			case <-s.Config():
				w.Rec(world.Ev{Actor: "loader", Kind: "published-despite-error", S: errs(err)})
			default:
			}
			return config.ServerConfig{}, err
		}
		return <-s.Config(), nil
	}
	var published []config.ServerConfig
	var snaps []string
	var pubStep []int
	var prev []byte
	for i, st := range ls.Steps {
		if st.Doc >= len(p.Scen.RawDocs) {
			continue
		}
		text := []byte(p.Scen.RawDocs[st.Doc])
		if st.Tear != "" {
			text = TornText(prev, text, st.Tear, st.TearN)
			w.Fault("config-" + st.Tear)
		}
		prev = []byte(p.Scen.RawDocs[st.Doc])
		r := LoaderStepResult{Step: i, Bytes: len(text)}
		ov, oerr := apply(src, st.Via, text)
		fv, ferr := apply(sut.NewSource(format), st.Via, text)
		if oerr != nil {
			r.OldErr = oerr.Error()
		}
		if ferr != nil {
			r.FreshErr = ferr.Error()
		}
		if oerr == nil {
			r.Old = sut.Canon(ov)
		}
		if ferr == nil {
			r.Fresh = sut.Canon(fv)
		}
		if oerr == nil && ferr == nil && r.Old != r.Fresh {
			r.Diff = sut.TopLevelDiff(ov, fv)
		}
		// configurations already published must not have been written by this load
		for k := range published {
			if sut.Canon(published[k]) != snaps[k] {
				r.Mutated = append(r.Mutated, pubStep[k])
			}
		}
		if oerr == nil {
			published = append(published, ov)
			snaps = append(snaps, r.Old)
			pubStep = append(pubStep, i)
		}
		w.Rec(world.Ev{Actor: "loader", Kind: "load-step", A: int64(i), B: int64(len(text)), S: st.Via + "|" + st.Tear + "|" + errs(oerr) + "|" + errs(ferr) + "|" + strings.Join(r.Diff, ",")})
		res.Steps = append(res.Steps, r)
	}
	return res
}

func errs(e error) string {
	if e == nil {
		return ""
	}
	s := e.Error()
	if len(s) > 60 {
		s = s[:60]
	}
	return s
}

func runLoader(ctx context.Context, p *plan.Plan, w *world.World, lg *sut.Logger) *LoaderResult {
	return runLoaderHistory(ctx, p, w, lg)
}
