package runner

import (
	"context"
	"fmt"
	"os"
	"path/filepath"
	"strings"
	"testing/synctest"
	"time"

	tqfsnotify "github.com/facebookincubator/tacquito/cmds/server/loader/fsnotify"
	fsn "github.com/fsnotify/fsnotify"

	"github.com/facebookincubator/tacquito/cmds/server/config"

	"tqsim/plan"
	"tqsim/sut"
	"tqsim/world"
)

// LoaderResult is filled by configuration-history scenarios.
type LoaderResult struct {
	Steps []LoaderStepResult
}

// LoaderStepResult compares one long-lived loader with a fresh one on the same bytes.
type LoaderStepResult struct {
	Step     int
	Bytes    int
	OldErr   string
	FreshErr string
	Old      string   // canonical JSON of the value the long-lived loader published
	Fresh    string   // canonical JSON of the value a fresh loader published
	Diff     []string // top-level parts that differ
	Mutated  []int    // steps whose earlier published value no longer equals its snapshot
}

// TornText applies a disk fault to the document text: what the loader reads is a prefix
// of the new file, the new file over the old one's tail, nothing, or noise.
func TornText(prev, text []byte, tear string, n int) []byte {
	switch tear {
	case "short":
		if n > len(text) {
			n = len(text)
		}
		return text[:n]
	case "stale-tail":
		if n > len(text) {
			n = len(text)
		}
		out := append([]byte(nil), text[:n]...)
		if len(prev) > n {
			out = append(out, prev[n:]...)
		}
		return out
	case "empty":
		return []byte{}
	case "garbage":
		out := make([]byte, n%200+1)
		for i := range out {
			out[i] = byte(33 + (i*31+n)%90)
		}
		return out
	}
	return text
}

func runLoaderHistory(ctx context.Context, p *plan.Plan, w *world.World, lg *sut.Logger) *LoaderResult {
	res := &LoaderResult{}
	ls := p.Scen.Loader
	format := p.Scen.Format
	src := sut.NewSource(format)
	dir, err := os.MkdirTemp("", "tqsim-cfg-")
	if err != nil {
		return res
	}
	defer os.RemoveAll(dir)
	path := filepath.Join(dir, "tacquito."+format)
	replace := false // the next file is renamed over the old one instead of rewritten in place
	oldMtime := 0    // > 0: the next file written gets a modification time that many hours before 2001
	apply := func(s sut.Source, via string, text []byte) (config.ServerConfig, error) {
		var err error
		if via == "load" {
			var werr error
			if replace {
				tmp := path + ".tmp-replace"
				if werr = os.WriteFile(tmp, text, 0o644); werr == nil {
					werr = os.Rename(tmp, path)
				}
			} else {
				werr = os.WriteFile(path, text, 0o644)
			}
			if werr != nil {
				return config.ServerConfig{}, werr
			}
			if oldMtime > 0 {
				t := time.Date(2001, 1, 1, 0, 0, 0, 0, time.UTC).Add(-time.Duration(oldMtime) * time.Hour)
				os.Chtimes(path, t, t)
			}
			err = s.Load(path)
		} else {
			err = s.Unmarshal(text)
		}
		if err != nil {
			// a failed load must not have published anything
			select {
			case <-s.Config():
				w.Rec(world.Ev{Actor: "loader", Kind: "published-despite-error", S: errs(err)})
			default:
			}
			return config.ServerConfig{}, err
		}
		select {
		case v := <-s.Config():
			return v, nil
		default:
		}
		synctest.Wait()
		select {
		case v := <-s.Config():
			return v, nil
		default:
			// the load reported success and published nothing: what was loaded before stays in force
			w.Rec(world.Ev{Actor: "loader", Kind: "load-published-nothing", S: via})
			return config.ServerConfig{}, errNothingPublished
		}
	}
	var published []config.ServerConfig
	var snaps []string
	var pubStep []int
	var prev []byte
	for i, st := range ls.Steps {
		if st.Doc >= len(p.Scen.RawDocs) {
			continue
		}
		text := []byte(p.Scen.RawDocs[st.Doc])
		if st.Tear != "" {
			text = TornText(prev, text, st.Tear, st.TearN)
			w.Fault("config-" + st.Tear)
		}
		prev = []byte(p.Scen.RawDocs[st.Doc])
		r := LoaderStepResult{Step: i, Bytes: len(text)}
		replace = st.Replace
		oldMtime = 0
		if st.OldMtime {
			oldMtime = i + 1
			w.Fault("config-old-mtime")
		}
		ov, oerr := apply(src, st.Via, text)
		fv, ferr := apply(sut.NewSource(format), st.Via, text)
		if oerr != nil {
			r.OldErr = oerr.Error()
		}
		if ferr != nil {
			r.FreshErr = ferr.Error()
		}
		if oerr == nil {
			r.Old = sut.Canon(ov)
		}
		if ferr == nil {
			r.Fresh = sut.Canon(fv)
		}
		if oerr == nil && ferr == nil && r.Old != r.Fresh {
			r.Diff = sut.TopLevelDiff(ov, fv)
		}
		// configurations already published must not have been written by this load
		for k := range published {
			if sut.Canon(published[k]) != snaps[k] {
				r.Mutated = append(r.Mutated, pubStep[k])
			}
		}
		if oerr == nil {
			published = append(published, ov)
			snaps = append(snaps, r.Old)
			pubStep = append(pubStep, i)
		}
		w.Rec(world.Ev{Actor: "loader", Kind: "load-step", A: int64(i), B: int64(len(text)), S: st.Via + "|" + st.Tear + "|" + errs(oerr) + "|" + errs(ferr) + "|" + strings.Join(r.Diff, ",")})
		res.Steps = append(res.Steps, r)
	}
	return res
}

var errNothingPublished = fmt.Errorf("load returned nil and published nothing")

func errs(e error) string {
	if e == nil {
		return ""
	}
	s := e.Error()
	if len(s) > 60 {
		s = s[:60]
	}
	return s
}

func runLoader(ctx context.Context, p *plan.Plan, w *world.World, lg *sut.Logger) *LoaderResult {
	if p.Scen.Loader.Watcher {
		return runWatcherHistory(ctx, p, w, lg)
	}
	return runLoaderHistory(ctx, p, w, lg)
}

// runWatcherHistory drives the reference server's file watcher (real watch loop, started
// through the verif-tagged StartWithEvents hook): real files in a private directory,
// change events injected by the simulator, the watch loop's one-second tick on the
// simulated clock. After every step whatever the watcher published is compared with what
// a fresh loader publishes for the configured file as it is then.
func runWatcherHistory(ctx context.Context, p *plan.Plan, w *world.World, lg *sut.Logger) *LoaderResult {
	res := &LoaderResult{}
	ls := p.Scen.Loader
	format := p.Scen.Format
	dir, err := os.MkdirTemp("", "tqsim-watch-")
	if err != nil {
		return res
	}
	defer os.RemoveAll(dir)
	path := filepath.Join(dir, "tacquito."+format)
	src := sut.NewSource(format)
	events := make(chan fsn.Event)
	errsCh := make(chan error)
	wt := tqfsnotify.New(ctx, src, lg)
	fresh := func() (string, string) {
		f := sut.NewSource(format)
		if err := f.Load(path); err != nil {
			return "", errs(err)
		}
		select {
		case v := <-f.Config():
			return sut.Canon(v), ""
		default:
			return "", "fresh loader published nothing"
		}
	}
	take := func() []string {
		var out []string
		for {
			select {
			case v := <-wt.Config():
				out = append(out, sut.Canon(v))
				synctest.Wait()
			default:
				return out
			}
		}
	}
	started := false
	noTakePending := false
	for i, st := range ls.Steps {
		if st.Doc >= len(p.Scen.RawDocs) {
			continue
		}
		text := []byte(p.Scen.RawDocs[st.Doc])
		target := path + st.Sibling
		var werr error
		if st.Replace && st.Sibling == "" {
			tmp := filepath.Join(dir, "zz-staged")
			if werr = os.WriteFile(tmp, text, 0o644); werr == nil {
				werr = os.Rename(tmp, target)
			}
		} else {
			werr = os.WriteFile(target, text, 0o644)
		}
		if werr != nil {
			w.Rec(world.Ev{Actor: "loader", Kind: "harness-error", S: werr.Error()})
			return res
		}
		if st.OldMtime {
			t := time.Date(2001, 1, 1, 0, 0, 0, 0, time.UTC).Add(-time.Duration(i+1) * time.Hour)
			os.Chtimes(target, t, t)
			w.Fault("config-old-mtime")
		}
		r := LoaderStepResult{Step: i, Bytes: len(text)}
		if !started {
			if st.Sibling != "" {
				continue // nothing is watching yet
			}
			if err := wt.StartWithEvents(path, events, errsCh); err != nil {
				r.OldErr = errs(err)
				r.Fresh, r.FreshErr = fresh()
				w.Rec(world.Ev{Actor: "loader", Kind: "watch-step", A: int64(i), S: "start|" + r.OldErr + "|" + r.FreshErr})
				res.Steps = append(res.Steps, r)
				continue
			}
			started = true
			synctest.Wait()
		} else {
			if !st.NoEvent {
				select {
				case events <- fsn.Event{Name: target, Op: fsn.Write}:
				default:
					// the watch loop is busy (publishing to a consumer that does not take): the
					// notifier's event is not picked up now
					w.Rec(world.Ev{Actor: "loader", Kind: "watch-event-not-taken", A: int64(i)})
				}
				if !st.NoTake && !noTakePending {
					synctest.Wait()
				}
			}
			time.Sleep(1100 * time.Millisecond) // past the watch loop's tick
			// for the race detector Wait orders everything the bubble's goroutines did before
			// it with everything after it: around unconsumed publications it is left out, so
			// that two reloads are only ordered if the watcher orders them itself
			if !st.NoTake {
				synctest.Wait()
			}
		}
		if st.NoTake {
			w.Rec(world.Ev{Actor: "loader", Kind: "watch-step", A: int64(i), S: "no-take"})
			noTakePending = true
			continue
		}
		pub := take()
		r.Fresh, r.FreshErr = fresh()
		main := st.Sibling == "" && !st.NoEvent
		if noTakePending {
			// publications of earlier, unconsumed steps are among these: only the last one
			// can be judged against the file as it is now
			noTakePending = false
			if len(pub) > 1 {
				pub = pub[len(pub)-1:]
			}
			main = false
		}
		for _, v := range pub {
			r.Old = v
			if r.FreshErr != "" {
				w.Rec(world.Ev{Actor: "loader", Kind: "watch-published-unloadable", A: int64(i), S: r.FreshErr})
			} else if v != r.Fresh {
				w.Rec(world.Ev{Actor: "loader", Kind: "watch-published-differs", A: int64(i), S: st.Sibling, Bytes: []byte(clipS(v, 300) + "\n" + clipS(r.Fresh, 300))})
			}
		}
		if len(pub) == 0 && main && r.FreshErr == "" {
			w.Rec(world.Ev{Actor: "loader", Kind: "watch-missed-change", A: int64(i)})
		}
		w.Rec(world.Ev{Actor: "loader", Kind: "watch-step", A: int64(i), B: int64(len(pub)), S: st.Sibling + "|" + r.FreshErr})
		res.Steps = append(res.Steps, r)
	}
	return res
}

func clipS(s string, n int) string {
	if len(s) > n {
		return s[:n]
	}
	return s
}
