package runner

import (
	"context"

	"tqsim/plan"
	"tqsim/sut"
	"tqsim/world"
)

// LoaderResult is filled by configuration-history scenarios.
type LoaderResult struct {
	Steps []LoaderStepResult
}

// LoaderStepResult compares one long-lived loader with a fresh one on the same bytes.
type LoaderStepResult struct {
	Step     int
	OldErr   string
	FreshErr string
	Old      string // canonical JSON of the value the long-lived loader published
	Fresh    string // canonical JSON of the value a fresh loader published
	Mutated  []int  // indices of earlier published values that no longer equal their snapshot
}

func runLoader(ctx context.Context, p *plan.Plan, w *world.World, lg *sut.Logger) *LoaderResult {
	return runLoaderHistory(ctx, p, w, lg)
}

func runLoaderHistory(ctx context.Context, p *plan.Plan, w *world.World, lg *sut.Logger) *LoaderResult {
	return &LoaderResult{}
}
