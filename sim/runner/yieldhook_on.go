//go:build yield

package runner

import (
	"github.com/facebookincubator/tacquito/simhook"
)

// In the yield build /repo is replaced by a scratch copy whose loader carries a
// simhook.Yield call before every statement (cmd/yieldify): each is a parking seam.
func init() {
	simhook.Hook = func(site string) {
		if w := curWorld.Load(); w != nil {
			w.Park("yield:" + site)
		}
	}
	yieldBuild = true
}
