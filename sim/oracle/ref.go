package oracle

import (
	"bytes"
	"encoding/base64"
	"encoding/hex"
	"encoding/json"
	"fmt"
	"os"
	"strings"

	"tqsim/model"
	"tqsim/plan"
	"tqsim/world"
)

// docInForce returns the document the reference server was started with.
func (c *ctx) docInForce() model.Doc {
	d := c.p.Scen.Docs[0]
	d.Normalize()
	return d
}

// published reports whether any configuration reload happened during the run.
func (c *ctx) published() bool { return c.has("publish") }

func (c *ctx) ref() {
	if len(c.p.Scen.Docs) == 0 {
		return
	}
	d := c.docInForce()
	for i := range c.p.Scen.Clients {
		if c.p.Scen.Clients[i].Real {
			continue
		}
		di, ok := c.docIndexFor(i + 1)
		if !ok {
			c.r.Probes["band:reload-in-flight"]++
			continue
		}
		dd := c.p.Scen.Docs[di]
		dd.Normalize()
		n0 := len(c.out)
		c.refConn(dd, i)
		if di > 0 {
			c.r.Probes["conn-after-reload"]++
			// a connection admitted after a reload is judged on the reloaded document: any
			// deviation means the reload is not equivalent to starting with that document
			for _, v := range c.out[n0:] {
				c.vs("C16/reloaded-config-not-in-force", v.Class, "connection %d arrived after document %d was loaded, yet: %s", i+1, di, v.Detail)
				break
			}
		}
	}
	c.oneReplyPerRequest()
	c.secretsInLogs(d)
	c.sinkLedger()
	c.everyLoadTakesEffect()
}

// everyLoadTakesEffect: a document the loader front end accepted (Unmarshal returned
// nil) must be applied by the server; at the end of the run, with nothing parked, as
// many configurations have been applied as were accepted (C16: a reload is as good as a
// start with that file).
func (c *ctx) everyLoadTakesEffect() {
	accepted, applied := 0, 0
	for _, e := range c.r.Events {
		switch {
		case e.Kind == "publish-done" && e.S == "":
			accepted++
		case e.Kind == "log" && strings.Contains(e.S, "updated all prefix filters"):
			applied++
		}
	}
	applied-- // the initial document
	if accepted > applied && c.r.Completed {
		c.v("C16/accepted-load-never-applied", "%d reloads were accepted by the loader front end without error but only %d took effect by the end of the run (nothing was parked any more)", accepted, applied)
	}
}

// sinkLedger is the content-based half of C12, independent of which connection's window
// a record falls into: every request acknowledged with SUCCESS needs a sink record of its
// own that decodes to exactly that request.
func (c *ctx) sinkLedger() {
	if len(c.acctOK) == 0 {
		return
	}
	var recs []acctRecord
	for _, e := range c.r.Events {
		if e.Kind == "sink" {
			var rec acctRecord
			if json.Unmarshal([]byte(e.S), &rec) == nil {
				recs = append(recs, rec)
			}
		}
	}
	used := make([]bool, len(recs))
	for _, rq := range c.acctOK {
		found := false
		for i := range recs {
			if !used[i] && recordEquals(recs[i], rq) {
				used[i], found = true, true
				break
			}
		}
		if !found {
			c.v("C12/acknowledged-without-own-record", "an accounting request (user %q port %q args %q) was answered SUCCESS but no sink record of its own decodes to it (%d records, %d acknowledged requests in the run)", rq.User, rq.Port, rq.Args, len(recs), len(c.acctOK))
			return
		}
	}
}

// docIndexFor returns the index of the configuration document in force when the
// connection was admitted; ok=false when a reload was in flight at that moment (the
// statement allows either configuration then, but not a mixture - that is C15's clause).
func (c *ctx) docIndexFor(conn int) (int, bool) {
	if len(c.p.Park) == 0 {
		// nothing is ever parked in this run: a configuration the loader has taken is dealt
		// with by the end of that scheduler step, whatever the loader logs about it
		accepted := []int{0}
		for _, e := range c.r.Events {
			if e.Kind == "publish-done" && e.S == "" {
				accepted = append(accepted, int(e.A))
			}
		}
		var taken []int // step in which the loader took the k-th accepted configuration
		for _, e := range c.r.Events {
			if e.Kind == "config-taken" {
				for len(taken) <= int(e.A) {
					taken = append(taken, -1)
				}
				taken[int(e.A)] = int(e.B)
			}
		}
		if len(taken) > 0 {
			for _, e := range c.r.Events {
				if e.Kind != "get-end" || e.Conn != conn {
					continue
				}
				k := -1
				for i, st := range taken {
					if st < 0 {
						continue
					}
					if st == e.Step {
						return 0, false // taken in the very step of this admission: either may apply
					}
					if st < e.Step {
						k = i
					}
				}
				if k < 0 || k >= len(accepted) {
					return 0, false
				}
				return accepted[k], true
			}
			return 0, false
		}
	}
	inForce := 0
	var flight []int
	began := false
	for _, e := range c.r.Events {
		switch {
		case e.Kind == "publish":
			flight = append(flight, int(e.A))
		case e.Kind == "publish-done" && e.S != "":
			// rejected by the loader front end: never reaches the server
			for k, f := range flight {
				if f == int(e.A) {
					flight = append(flight[:k:k], flight[k+1:]...)
					break
				}
			}
		case e.Kind == "log" && strings.Contains(e.S, "updated all prefix filters"):
			if len(flight) > 0 {
				inForce = flight[0]
				flight = flight[1:]
			}
		case e.Kind == "get-begin" && e.Conn == conn:
			began = true
			if len(flight) > 0 {
				return 0, false
			}
		case e.Kind == "get-end" && e.Conn == conn:
			if len(flight) > 0 {
				return 0, false
			}
			return inForce, true
		}
	}
	_ = began
	return inForce, true
}

type winfo struct {
	invs       []invocation
	invEnd     map[int]int // invocation index -> Seq of invoke-end
	writes     []world.Ev
	closed     bool
	closedEver bool
	getOK      int // -1 unknown, 0 refused, 1 served
	secret     []byte
	timeout    bool
	gotGet     bool
}

func (c *ctx) connInfo(id int) winfo {
	w := winfo{invEnd: map[int]int{}, getOK: -1}
	drain := c.drainSeq()
	for _, e := range c.r.Events {
		if e.Conn != id {
			continue
		}
		switch e.Kind {
		case "invoke":
			w.invs = append(w.invs, parseInvoke(e))
		case "invoke-end":
			w.invEnd[int(e.A)] = e.Seq
		case "write":
			w.writes = append(w.writes, e)
		case "close":
			if e.Seq < drain {
				w.closed = true // on the server's own initiative, not the end-of-run shutdown
			}
			w.closedEver = true
		case "get-end":
			w.gotGet = true
			w.getOK = int(e.A)
			w.secret = e.Bytes
		case "read-end":
			if strings.HasSuffix(e.S, "i/o timeout") && e.Seq < drain {
				w.timeout = true
			}
		}
	}
	return w
}

func (c *ctx) refConn(d model.Doc, i int) {
	cs := &c.p.Scen.Clients[i]
	id := i + 1
	if cs.Tag == "control" {
		// a control client performs a known-good exchange next to hostile clients: any
		// deviation on its connection is also a violation of C14
		n0 := len(c.out)
		defer func() {
			for _, v := range c.out[n0:] {
				c.vs("C14/control-client-disturbed", v.Class, "control client on conn %d: %s", id, v.Detail)
				break
			}
		}()
	}
	w := c.connInfo(id)
	if !w.gotGet {
		return // never accepted (run ended first)
	}
	adm, preds, complete := plan.PredictRef(d, cs)
	replies := c.r.Replies[id]
	reloaded := false

	// ---- admission (C13)
	if adm.Band != "" {
		c.r.Probes["band:"+adm.Band]++
		if adm.NoUsable && w.getOK == 1 {
			c.grantsWithoutScope(id, cs, adm, replies, w.secret)
		}
	} else if !reloaded {
		if !adm.Admit {
			if w.getOK == 1 {
				c.vs("C13/served-but-must-refuse", adm.Why[:min(len(adm.Why), 12)], "conn %d from %s must be refused (%s) but was bound to key %q", id, cs.Addr, adm.Why, w.secret)
			}
			if len(w.invs) > 0 {
				c.v("C13/refused-but-invoked", "conn %d from %s must be refused (%s) but a handler ran", id, cs.Addr, adm.Why)
			}
			if len(replies) > 0 || len(c.r.Tail[id]) > 0 || len(w.writes) > 0 {
				c.v("C13/refused-but-written", "conn %d from %s must be refused (%s) but bytes were written", id, cs.Addr, adm.Why)
			}
			c.grantsWithoutScope(id, cs, adm, replies, w.secret)
			return
		}
		if w.getOK != 1 {
			c.v("C13/refused-but-must-serve", "conn %d from %s belongs to scope %s but was refused", id, cs.Addr, adm.Scope)
			return
		}
		if string(w.secret) != adm.Key {
			c.v("C13/wrong-scope-key", "conn %d from %s must be bound to scope %s (first matching secret configuration) but got another key", id, cs.Addr, adm.Scope)
			c.v("C19/connection-keyed-with-another-scopes-secret", "conn %d from %s: the connection's secret is scope %s's key, the server reads it with %q: requests under the right key are flagged as mismatches and requests under the wrong one are served", id, cs.Addr, adm.Scope, w.secret)
			return
		}
	}
	if !adm.Admit || w.getOK != 1 || reloaded {
		return
	}
	srvKey := []byte(adm.Key)
	c.curDoc, c.curScope = &d, adm.Scope
	quiet := !c.p.Scen.Stall && !c.p.Scen.Faulty && len(cs.WFault) == 0 && !w.timeout && !c.cancelledEarly() && c.allDelivered(id) && len(c.p.Park) == 0

	// a failed or short write cuts a reply out of the stream the tap sees: from the first
	// faulted write on, replies can no longer be paired with requests on this connection
	goodWrites := 1 << 30
	for n, e := range w.writes {
		if e.S == "error" || e.S == "short" || e.S == "reset" {
			goodWrites = n
			break
		}
	}
	// C10 soundness over the whole stream: an authentication PASS on the wire must be the
	// answer to a request (same session, next sequence number); a PASS nobody asked for is
	// read by the client as the verdict of whatever it sends next
	framed := true // the client sends only whole, unmodified packets: headers on the wire are those of the script
	for _, o := range cs.Ops {
		if o.Kind == "raw" || (o.Kind == "send" && (o.Pkt.FlipBit != nil || o.Pkt.Trunc != nil || o.Pkt.LenOverride != nil)) {
			framed = false
		}
	}
	for n, rp := range replies {
		if n >= goodWrites || !framed {
			break
		}
		if rp.H.Type != model.TypeAuthen || int(rp.H.Length) != len(rp.Body) {
			continue
		}
		v, err := model.DecodeAuthenReply(model.Obfuscate(rp.H, srvKey, rp.Body))
		if err != nil || v.Status != model.AuthenPass {
			continue
		}
		asked := false
		for _, o := range cs.Ops {
			if o.Kind == "send" && o.Pkt.Session == rp.H.Session && o.Pkt.Seq != 255 && o.Pkt.Seq+1 == rp.H.Seq {
				asked = true
				break
			}
		}
		if !asked {
			c.vs("C10/pass-without-basis", "unsolicited", "conn %d: the server wrote PASS %s although no request of that session carries the preceding sequence number (a second reply to an exchange that was already answered)", id, hstr(rp.H))
		}
	}
	k, g := 0, 0
	before := len(c.out)
	if os.Getenv("TQSIM_DEBUG") != "" {
		for _, pr := range preds {
			fmt.Fprintf(os.Stderr, "DEBUG conn %d pred %s verdict=%s band=%s why=%s goodWrites=%d invs=%d\n", id, hstr(pr.H), pr.Exp.Verdict, pr.Exp.Band, pr.Exp.Why, goodWrites, len(w.invs))
		}
	}
	for _, pr := range preds {
		if g >= goodWrites {
			c.r.Probes["pairing-stopped-at-write-fault"]++
			// replies can no longer be paired; that a rejected packet must not reach a
			// handler does not depend on any reply
			if (pr.Exp.Verdict == "terminate" || pr.Exp.Verdict == "badsecret") && k < len(w.invs) && sameRequest(w.invs[k].H, pr.H) {
				c.vs("C07/rejected-request-handled", pr.Exp.Why, "conn %d: packet %s must be rejected (%s) but a handler ran for it (after a failed write)", id, hstr(pr.H), pr.Exp.Why)
				if pr.Exp.Verdict == "terminate" {
					c.vs("C08/dispatched-after-violation", pr.Exp.Why, "conn %d: packet %s violates the sequence rules (%s) but a handler ran", id, hstr(pr.H), pr.Exp.Why)
				} else {
					c.v("C19/mismatch-processed", "conn %d: packet %s has the key-mismatch signature but a handler ran (the error packet could not be written)", id, hstr(pr.H))
				}
			}
			return
		}
		if len(c.out) > before {
			return // the model and the server have diverged on this connection: later differences are consequences
		}
		switch pr.Exp.Verdict {
		case "unknown":
			c.r.Probes["band:"+pr.Exp.Band]++
			// outside the modelled domain: the soundness direction still holds
			if g < len(replies) && pr.H.Type == model.TypeAuthen && pr.H.Seq != 255 && replies[g].H.Session == pr.H.Session && replies[g].H.Seq == pr.H.Seq+1 {
				body := model.Obfuscate(replies[g].H, srvKey, replies[g].Body)
				if v, err := model.DecodeAuthenReply(body); err == nil && v.Status == model.AuthenPass {
					c.vs("C10/pass-without-basis", pr.Exp.Band, "conn %d session %d: PASS in answer to a malformed or out-of-place packet %s", id, pr.H.Session, hstr(pr.H))
				}
			}
			return
		case "terminate", "badsecret":
			if k < len(w.invs) {
				// a handler ran for the rejected packet or for one behind it
				if sameRequest(w.invs[k].H, pr.H) {
					c.vs("C07/rejected-request-handled", pr.Exp.Why, "conn %d: packet %s must be rejected (%s) but a handler ran for it", id, hstr(pr.H), pr.Exp.Why)
					if pr.Exp.Verdict == "terminate" {
						c.vs("C08/dispatched-after-violation", pr.Exp.Why, "conn %d: packet %s violates the sequence rules (%s) but a handler ran", id, hstr(pr.H), pr.Exp.Why)
					} else {
						c.v("C19/mismatch-processed", "conn %d: packet %s has the key-mismatch signature but a handler ran", id, hstr(pr.H))
					}
				}
				c.vs("C07/processed-after-reject", pr.Exp.Why, "conn %d: packet %s was rejected (%s) yet a handler ran afterwards with %s: the connection was not closed", id, hstr(pr.H), pr.Exp.Why, hstr(w.invs[k].H))
				return
			}
			if pr.Exp.Verdict == "badsecret" {
				c.r.Probes["bad-secret-path"]++
				if g >= len(replies) {
					if quiet {
						c.v("C19/no-error-packet", "conn %d: key-mismatch request %s got no error packet", id, hstr(pr.H))
					}
					return
				}
				c.checkBadSecretReply(id, plan.Pred{H: pr.H}, replies[g], srvKey)
				g++
			}
			if g < len(replies) {
				c.v("C07/written-after-reject", "conn %d: %d packets written after rejecting %s", id, len(replies)-g, hstr(pr.H))
			}
			if quiet && !w.closed {
				c.v("C07/rejected-not-closed", "conn %d: rejected %s (%s) but the connection stayed open", id, hstr(pr.H), pr.Exp.Why)
			}
			return
		}
		// expected: dispatched and answered
		if k >= len(w.invs) {
			if quiet {
				if c.logHas("bad secret detected") {
					c.v("C19/valid-request-flagged", "conn %d: request %s is well-formed under the connection's secret yet was treated as a key mismatch", id, hstr(pr.H))
				} else {
					c.v("C07/accepted-request-not-handled", "conn %d: request %s never reached a handler", id, hstr(pr.H))
				}
			}
			return
		}
		inv := w.invs[k]
		k++
		if inv.H != pr.H || !bytes.Equal(inv.Body, pr.Body) {
			c.v("C05/request-differs", "conn %d invocation %d: handler saw %s, client sent %s", id, inv.Index, hstr(inv.H), hstr(pr.H))
			return
		}
		if inv.Handler != pr.Exp.Handler {
			c.v("C08/wrong-handler", "conn %d invocation %d %s: ran at handler position %d, model says %d", id, inv.Index, hstr(pr.H), inv.Handler, pr.Exp.Handler)
		}
		if pr.Exp.NoReply {
			continue
		}
		if g >= len(replies) {
			if quiet {
				c.v("C07/missing-reply", "conn %d: request %s (user %q) got no reply packet", id, hstr(pr.H), pr.Exp.User)
			}
			return
		}
		rp := replies[g]
		g++
		c.checkRefReply(id, pr, rp, srvKey, w, inv)
	}
	if complete && quiet && (k < len(w.invs)) {
		c.v("C07/extra-invocation", "conn %d: %d invocations, model expects %d", id, len(w.invs), k)
	}
}

// sameRequest: the header a handler saw is that of the given request (the length field is
// left out: code that answers a rejected request may have rewritten it in place).
func sameRequest(a, b model.Header) bool {
	return a.Session == b.Session && a.Seq == b.Seq && a.Type == b.Type && a.Version == b.Version
}

// grantsWithoutScope: under the configuration in force the connection has no scope it
// could be bound to (refused, or every matching scope is without users): whatever key it
// was bound to, no user and no right exists for it.
func (c *ctx) grantsWithoutScope(id int, cs *plan.ClientSpec, adm model.Admission, replies []model.Packet, secret []byte) {
	for _, rp := range replies {
		if int(rp.H.Length) != len(rp.Body) {
			continue
		}
		body := model.Obfuscate(rp.H, secret, rp.Body)
		switch rp.H.Type {
		case model.TypeAuthen:
			if v, err := model.DecodeAuthenReply(body); err == nil && v.Status == model.AuthenPass {
				c.vs("C10/pass-without-basis", "no-scope", "conn %d from %s: PASS although the configuration in force gives this connection no scope (%s): no user exists for it", id, cs.Addr, adm.Why)
			}
		case model.TypeAuthor:
			if v, err := model.DecodeAuthorReply(body); err == nil && (v.Status == model.AuthorPassAdd || v.Status == model.AuthorPassRepl) {
				c.vs("C11/granted-against-policy", "no-scope", "conn %d from %s: authorization granted although the configuration in force gives this connection no scope (%s)", id, cs.Addr, adm.Why)
			}
		case model.TypeAcct:
			if v, err := model.DecodeAcctReply(body); err == nil && v.Status == model.AcctSuccess {
				c.vs("C12/success-must-be-error", "no-scope", "conn %d from %s: accounting acknowledged although the configuration in force gives this connection no scope (%s)", id, cs.Addr, adm.Why)
			}
		}
	}
}

func min(a, b int) int {
	if a < b {
		return a
	}
	return b
}

func (c *ctx) logHas(sub string) bool {
	for _, e := range c.r.Events {
		if e.Kind == "log" && strings.Contains(e.S, sub) {
			return true
		}
	}
	return false
}

func statusIn(s uint8, set []uint8) bool {
	for _, x := range set {
		if x == s {
			return true
		}
	}
	return false
}

func (c *ctx) checkRefReply(id int, pr plan.RefPred, rp model.Packet, srvKey []byte, w winfo, inv invocation) {
	req := pr.H
	// mirror rules hold for the reference handlers too (C06)
	if rp.H.Session != req.Session || rp.H.Type != req.Type || rp.H.Version != req.Version || rp.H.Flags != req.Flags || rp.H.Seq != req.Seq+1 || int(rp.H.Length) != len(rp.Body) {
		c.v("C06/ref-reply-header", "conn %d: reply %s to request %s", id, hstr(rp.H), hstr(req))
		return
	}
	body := model.Obfuscate(rp.H, srvKey, rp.Body)
	e := pr.Exp
	band := e.Band
	switch req.Type {
	case model.TypeAuthen:
		v, err := model.DecodeAuthenReply(body)
		if err != nil {
			c.v("C01/ref-reply-undecodable", "conn %d: authentication reply does not decode: %v", id, err)
			return
		}
		if v.Status == model.AuthenPass && !e.PassAllowed {
			if c.userElsewhere(e.User, pr) {
				c.v("C13/user-visible-outside-its-scope", "conn %d: user %q is not assigned to this connection's scope, yet it authenticated (users of other scopes must not exist here)", id, e.User)
			}
			c.vs("C10/pass-without-basis", band, "conn %d session %d: PASS for user %q although the model finds no basis (expected %v)", id, req.Session, e.User, e.Statuses)
			return
		}
		if e.MustPass && v.Status != model.AuthenPass {
			c.vs("C10/valid-login-refused", band, "conn %d session %d: well-formed login of user %q with the right password answered status %d (%s)", id, req.Session, e.User, v.Status, v.ServerMsg)
			return
		}
		if !statusIn(v.Status, e.Statuses) {
			c.vs("C10/wrong-status", band, "conn %d session %d: request %s answered status %d (%s), model expects %v", id, req.Session, hstr(req), v.Status, v.ServerMsg, e.Statuses)
		}
	case model.TypeAuthor:
		v, err := model.DecodeAuthorReply(body)
		if err != nil {
			c.v("C01/ref-reply-undecodable", "conn %d: authorization reply does not decode: %v", id, err)
			return
		}
		granted := v.Status == model.AuthorPassAdd || v.Status == model.AuthorPassRepl
		expGrant := statusIn(model.AuthorPassAdd, e.Statuses) || statusIn(model.AuthorPassRepl, e.Statuses)
		expDeny := statusIn(model.AuthorFail, e.Statuses) || statusIn(model.AuthorError, e.Statuses)
		rq, _ := model.DecodeAuthorRequest(pr.Body)
		desc := fmt.Sprintf("user %q args %q", rq.User, rq.Args)
		if c.curDoc != nil && (!statusIn(v.Status, e.Statuses) || (granted && e.ArgsKnown && !sameArgs(v.Args, e.Args))) {
			// the answer is not the one of the scope the connection is bound to: is it the
			// answer the same user would get as a member of another scope?
			for _, sc := range c.curDoc.Secrets {
				if sc.Name == c.curScope {
					continue
				}
				rc2 := model.NewRefConn(*c.curDoc, c.curScope)
				rc2.Scope = sc.Name
				e2 := rc2.Step(pr.H, pr.Body, false)
				if e2.Verdict == "reply" && e2.Band == "" && statusIn(v.Status, e2.Statuses) && (!granted || (e2.ArgsKnown && sameArgs(v.Args, e2.Args))) {
					c.v("C13/rights-of-another-scope", "conn %d is bound to scope %s, yet %s is answered (status %d args %q) as in scope %s (bound scope would give %v %q): users do not stay scoped", id, c.curScope, desc, v.Status, v.Args, sc.Name, e.Statuses, e.Args)
					break
				}
			}
		}
		switch {
		case granted && !expGrant:
			c.vs("C11/granted-against-policy", band, "conn %d: authorization granted (status %d args %q) for %s; policy says FAIL", id, v.Status, v.Args, desc)
		case !granted && !expDeny:
			c.vs("C11/denied-against-policy", band, "conn %d: authorization status %#x for %s; policy grants %v with args %q", id, v.Status, desc, e.Statuses, e.Args)
		case !statusIn(v.Status, e.Statuses):
			c.vs("C11/add-vs-replace", band, "conn %d: authorization status %d for %s; model expects %v", id, v.Status, desc, e.Statuses)
		case granted && e.ArgsKnown && !sameArgs(v.Args, e.Args):
			c.vs("C11/values-differ", band, "conn %d: authorization returned %q for %s; configured values are %q", id, v.Args, desc, e.Args)
		}
	case model.TypeAcct:
		v, err := model.DecodeAcctReply(body)
		if err != nil {
			c.v("C01/ref-reply-undecodable", "conn %d: accounting reply does not decode: %v", id, err)
			return
		}
		if !statusIn(v.Status, e.Statuses) {
			cls := "C12/error-must-be-success"
			if v.Status == model.AcctSuccess {
				cls = "C12/success-must-be-error"
			}
			c.vs(cls, band, "conn %d: accounting request %s answered status %d (%s), model expects %v", id, hstr(req), v.Status, v.ServerMsg, e.Statuses)
			return
		}
		if v.Status == model.AcctSuccess {
			c.checkSink(id, pr, inv, w)
			if rq, err := model.DecodeAcctRequest(pr.Body); err == nil {
				c.acctOK = append(c.acctOK, rq)
			}
		}
	}
}

// userElsewhere: the named user exists in some configuration document of the plan.
func (c *ctx) userElsewhere(user string, pr plan.RefPred) bool {
	for _, d := range c.p.Scen.Docs {
		for _, u := range d.Users {
			if u.Name == user {
				return true
			}
		}
	}
	return false
}

func sameArgs(a, b [][]byte) bool {
	if len(a) != len(b) {
		return false
	}
	for i := range a {
		if !bytes.Equal(a[i], b[i]) {
			return false
		}
	}
	return true
}

// acctRecord is the record the log-backed accounter writes, decoded independently.
type acctRecord struct {
	Flags, Method, PrivLvl, Type, Service uint8
	User, Port, RemAddr                   string
	Args                                  []string
}

func recordEquals(rec acctRecord, rq model.AcctRequest) bool {
	if rec.Flags != rq.Flags || rec.Method != rq.Method || rec.PrivLvl != rq.PrivLvl || rec.Type != rq.Type || rec.Service != rq.Service {
		return false
	}
	if rec.User != string(rq.User) || rec.Port != string(rq.Port) || rec.RemAddr != string(rq.RemAddr) || len(rec.Args) != len(rq.Args) {
		return false
	}
	for i := range rec.Args {
		if rec.Args[i] != string(rq.Args[i]) {
			return false
		}
	}
	return true
}

// checkSink: a SUCCESS must be backed by exactly one sink record, written before the
// reply, that decodes to exactly the request (C12).
func (c *ctx) checkSink(id int, pr plan.RefPred, inv invocation, w winfo) {
	rq, err := model.DecodeAcctRequest(pr.Body)
	if err != nil {
		return
	}
	end, ok := w.invEnd[inv.Index]
	if !ok {
		end = 1 << 30
	}
	writeSeq := -1
	for _, e := range w.writes {
		if e.Seq > inv.Seq && e.Seq < end {
			writeSeq = e.Seq
			break
		}
	}
	matching, other := 0, 0
	var otherText string
	after := false
	for _, e := range c.r.Events {
		if e.Kind != "sink" || e.Seq < inv.Seq || e.Seq > end {
			continue
		}
		var rec acctRecord
		if json.Unmarshal([]byte(e.S), &rec) == nil && recordEquals(rec, rq) {
			matching++
			if writeSeq >= 0 && e.Seq > writeSeq {
				after = true
			}
		} else {
			other++
			otherText = e.S
		}
	}
	switch {
	case matching == 0 && other > 0 && !c.overlapping(inv, end):
		c.v("C12/record-differs", "conn %d: accounting SUCCESS but the sink record does not decode to the request: %.200q (request user %q port %q rem %q args %q)", id, otherText, rq.User, rq.Port, rq.RemAddr, rq.Args)
	case matching == 0 && other == 0:
		c.v("C12/no-record", "conn %d: accounting SUCCESS without a sink record", id)
	case matching > 1 && !c.overlapping(inv, end):
		c.v("C12/duplicate-record", "conn %d: accounting SUCCESS with %d identical sink records", id, matching)
	case after:
		c.v("C12/record-after-reply", "conn %d: the sink record was written after the reply", id)
	}
}

// overlapping: some other connection's handler invocation overlaps this invocation's
// window (then records in the window cannot be attributed by position, only by content).
func (c *ctx) overlapping(inv invocation, end int) bool {
	open := map[int]int{} // conn -> Seq of its open invoke
	for _, e := range c.r.Events {
		if e.Conn == inv.Conn || e.Conn == 0 {
			continue
		}
		switch e.Kind {
		case "invoke":
			open[e.Conn] = e.Seq
		case "invoke-end":
			if st, ok := open[e.Conn]; ok {
				if st < end && e.Seq > inv.Seq {
					return true
				}
				delete(open, e.Conn)
			}
		}
	}
	for _, st := range open {
		if st < end {
			return true
		}
	}
	return false
}

// oneReplyPerRequest is the model-free clause of C07: inside every handler invocation
// exactly one packet is written to that connection (none iff the request is numbered
// 255), and nothing is written to a connection outside invocations except a
// key-mismatch error packet.
func (c *ctx) oneReplyPerRequest() {
	type open struct {
		inv    invocation
		writes int
	}
	cur := map[int]*open{}
	for _, e := range c.r.Events {
		if e.Conn == 0 {
			continue
		}
		switch e.Kind {
		case "invoke":
			cur[e.Conn] = &open{inv: parseInvoke(e)}
		case "write":
			// a write that failed on a deadline the server armed itself delivered nothing;
			// injected transport faults (error, short, reset) count as the attempt they were
			if o := cur[e.Conn]; o != nil && e.S != "write-deadline" {
				o.writes++
			}
		case "invoke-end":
			o := cur[e.Conn]
			if o == nil {
				continue
			}
			delete(cur, e.Conn)
			if c.connPanicked(e.Conn) {
				continue // reported by C14
			}
			want := 1
			if o.inv.H.Seq == 255 {
				want = 0
			}
			if o.writes != want {
				sub := "none"
				if o.writes > want {
					sub = "several"
				}
				c.vs("C07/replies-per-request", sub+":"+c.lastLogSite(o.inv.Seq, e.Seq), "conn %d: request %s got %d reply packets, want %d", e.Conn, hstr(o.inv.H), o.writes, want)
			}
		}
	}
}

// lastLogSite names the last log format string emitted inside an event window (a cheap
// stable call-site indicator for signatures).
func (c *ctx) lastLogSite(from, to int) string {
	site := ""
	for _, e := range c.r.Events {
		if e.Seq > from && e.Seq < to && e.Kind == "log" {
			parts := strings.SplitN(e.S, "|", 3)
			if len(parts) >= 2 && parts[0] == "error" {
				site = parts[1]
			}
		}
	}
	if len(site) > 40 {
		site = site[:40]
	}
	return site
}

func (c *ctx) connPanicked(id int) bool {
	for _, e := range c.r.Events {
		if e.Kind == "panic" && e.Conn == id {
			return true
		}
	}
	return false
}

// secretsInLogs is C18: no password presented by a client and no shared secret may
// occur in anything handed to the logger, in raw or trivially encoded form.
func (c *ctx) secretsInLogs(d model.Doc) {
	type tok struct {
		what string
		raw  string
	}
	var toks []tok
	seen := map[string]bool{}
	add := func(what, s string) {
		if len(s) >= 8 && !seen[s] {
			seen[s] = true
			toks = append(toks, tok{what, s})
		}
	}
	for _, s := range d.Secrets {
		add("shared secret of scope "+s.Name, s.Secret.Key)
	}
	for _, doc := range c.p.Scen.Docs[1:] {
		for _, s := range doc.Secrets {
			add("shared secret of scope "+s.Name, s.Secret.Key)
		}
	}
	// passwords the clients presented
	for _, cs := range c.p.Scen.Clients {
		for _, op := range cs.Ops {
			if op.Pkt == nil {
				continue
			}
			b := op.Pkt.Body
			switch b.Kind {
			case model.KAuthenStart:
				if len(b.S) > 3 {
					add("password (START data)", string(b.S[3]))
				}
			case model.KAuthenCont:
				if len(b.S) > 0 {
					for _, pp := range plan.PwPool {
						if strings.Contains(string(b.S[0]), pp.Pw) {
							add("password (CONTINUE user_msg)", pp.Pw)
						}
					}
				}
			}
		}
	}
	if len(toks) == 0 {
		return
	}
	forms := func(s string) []string {
		vb := fmt.Sprintf("%v", []byte(s))
		return []string{s, hex.EncodeToString([]byte(s)), base64.StdEncoding.EncodeToString([]byte(s)), vb[1 : len(vb)-1]}
	}
	for _, e := range c.r.Events {
		if e.Kind != "log" && e.Kind != "record" && e.Kind != "retain" {
			continue
		}
		for _, t := range toks {
			for fi, f := range forms(t.raw) {
				if strings.Contains(e.S, f) {
					site := e.Kind
					if e.Kind == "log" {
						parts := strings.SplitN(e.S, "|", 3)
						if len(parts) >= 2 {
							site = "log:" + parts[1]
						}
					} else {
						site = e.Kind + ":" + keyHolding(e.S, f)
					}
					if len(site) > 60 {
						site = site[:60]
					}
					c.vs("C18/secret-logged", site, "%s reaches the logger (form %d) in a %s call: %.160q", t.what, fi, e.Kind, e.S)
					break
				}
			}
		}
	}
}

func isPoolPassword(s string) bool {
	for _, p := range plan.PwPool {
		if p.Pw == s {
			return true
		}
	}
	return false
}

// keyHolding returns the record key whose value contains the token.
func keyHolding(rec, tok string) string {
	for _, kv := range strings.Split(rec, "\x1f") {
		if strings.Contains(kv, tok) {
			if i := strings.Index(kv, "="); i > 0 {
				return kv[:i]
			}
		}
	}
	return "?"
}
