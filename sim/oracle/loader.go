package oracle

import (
	"fmt"
	"strings"
)

// loaderHistory is property C16 on the loader itself: after any history of documents a
// successful load publishes what a fresh loader publishes for the same bytes, a failed
// load is failed by the fresh loader too, and published values are never modified.
func (c *ctx) loaderHistory() {
	if c.r.Loader == nil {
		return
	}
	for _, e := range c.r.Events {
		if e.Kind == "published-despite-error" {
			c.vs("C16/failed-load-published", c.p.Scen.Format, "a load that failed (%s) nevertheless published a configuration", e.S)
		}
	}
	for _, e := range c.r.Events {
		switch e.Kind {
		case "load-published-nothing":
			c.vs("C16/successful-load-published-nothing", c.p.Scen.Format, "a load (%s) reported success and published no configuration: the file's content is not in force, a fresh loader publishes it", e.S)
		case "watch-published-differs":
			c.vs("C16/watcher-published-differs-from-fresh", e.S, "step %d: after a change event (sibling %q) and a tick the watcher published a configuration that is not what a fresh loader publishes for the configured file:\n  %s", e.A, e.S, e.Bytes)
		case "watch-published-unloadable":
			c.v("C16/failed-load-published", "step %d: the watcher published a configuration although the configured file does not load (%s)", e.A, e.S)
		case "watch-missed-change":
			c.v("C16/watcher-missed-change", "step %d: the configured file was rewritten with a loadable document, the change event was delivered and the tick passed, yet nothing was published", e.A)
		}
	}
	if c.p.Scen.Loader != nil && c.p.Scen.Loader.Watcher {
		return
	}
	for _, s := range c.r.Loader.Steps {
		if (s.OldErr == "") != (s.FreshErr == "") {
			c.vs("C16/load-outcome-differs", c.p.Scen.Format, "step %d (%d bytes): long-lived %s loader says %q, a fresh loader says %q", s.Step, s.Bytes, c.p.Scen.Format, s.OldErr, s.FreshErr)
			continue
		}
		if s.OldErr == "" && s.Old != s.Fresh {
			c.vs("C16/reload-differs-from-fresh", c.p.Scen.Format+":"+strings.Join(s.Diff, ","), "step %d: after the earlier loads the %s loader publishes a configuration that differs from a fresh loader's in %v\n  reloaded: %s\n  fresh:    %s", s.Step, c.p.Scen.Format, s.Diff, clip(s.Old), clip(s.Fresh))
		}
		if len(s.Mutated) > 0 {
			c.vs("C16/published-config-modified", c.p.Scen.Format, "step %d: configurations published at steps %v were modified by this load", s.Step, s.Mutated)
			c.vs("C15/published-config-written", c.p.Scen.Format, "step %d: configurations published at steps %v were written again by a later load", s.Step, s.Mutated)
		}
	}
}

func clip(s string) string {
	if len(s) > 600 {
		return fmt.Sprintf("%s…(%d)", s[:600], len(s))
	}
	return s
}
