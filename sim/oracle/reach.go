package oracle

import (
	"strings"
	"tqsim/model"
)

// reach counts "this rare condition was hit" probes from the history, so that the
// evidence shows what the workload and fault mix actually reached.
func (c *ctx) reach() {
	pr := c.r.Probes
	if pr == nil {
		return
	}
	// packet boundaries of each model client's byte stream
	for i := range c.p.Scen.Clients {
		cs := &c.p.Scen.Clients[i]
		if cs.Real {
			continue
		}
		id := i + 1
		var ends, hdrEnds []int
		off := 0
		for _, op := range cs.Ops {
			switch op.Kind {
			case "send":
				w := len(op.Pkt.Wire(cs.Key))
				if w >= model.HeaderLen {
					hdrEnds = append(hdrEnds, off+model.HeaderLen)
				}
				off += w
				ends = append(ends, off)
			case "raw":
				off += len(op.Raw)
			}
		}
		in := func(xs []int, v int) bool {
			for _, x := range xs {
				if x == v {
					return true
				}
			}
			return false
		}
		cum := 0
		delivers := map[int]int{} // packet index -> number of delivers touching it
		for _, e := range c.r.Events {
			if e.Conn != id {
				continue
			}
			switch e.Kind {
			case "deliver":
				from := cum
				cum += int(e.A)
				if in(hdrEnds, cum) {
					pr["delivery-ends-on-header-boundary"]++
				}
				if in(ends, cum) {
					pr["delivery-ends-on-packet-boundary"]++
				}
				crossed := 0
				start := 0
				for k, en := range ends {
					if from < en && cum > start {
						delivers[k]++
					}
					if en > from && en <= cum {
						crossed++
					}
					start = en
				}
				if crossed >= 2 {
					pr["several-packets-in-one-delivery"]++
				}
				if e.A == 1 {
					pr["single-byte-delivery"]++
				}
			case "read-end":
				if strings.HasSuffix(e.S, "i/o timeout") && !in(ends, cum) && cum > 0 {
					pr["deadline-fired-inside-packet"]++
				}
			}
		}
		for _, n := range delivers {
			if n >= 3 {
				pr["packet-spanning-3-or-more-deliveries"]++
			}
		}
	}
	// cancellation while a handler is parked; continuation after a foreign packet
	parkedHandlers := 0
	lastSess := map[int]uint32{}
	for _, e := range c.r.Events {
		switch e.Kind {
		case "parked":
			if e.S == "handler" || e.S == "write" || (len(e.S) > 4 && e.S[:4] == "log:") {
				parkedHandlers++
			}
		case "release":
			if parkedHandlers > 0 {
				parkedHandlers--
			}
		case "cancel":
			if parkedHandlers > 0 {
				pr["cancel-while-handler-or-write-parked"]++
			}
		case "invoke":
			inv := parseInvoke(e)
			if inv.Handler != 0 {
				if s, ok := lastSess[e.Conn]; ok && s != inv.H.Session {
					pr["continuation-after-foreign-packet"]++
				}
				if inv.H.Seq >= 251 {
					pr["continuation-near-top-of-sequence-space"]++
				}
			}
			lastSess[e.Conn] = inv.H.Session
		case "accept-end":
			if e.S == "conn" && c.cancelBefore(e.Seq) {
				pr["accept-after-cancel"]++
			}
		}
	}
}

func (c *ctx) cancelBefore(seq int) bool {
	for _, e := range c.r.Events {
		if e.Seq >= seq {
			return false
		}
		if e.Kind == "cancel" {
			return true
		}
	}
	return false
}
