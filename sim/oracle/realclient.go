package oracle

import (
	"bytes"
	"encoding/json"
	"strings"

	"tqsim/model"
	"tqsim/plan"
	"tqsim/world"
)

// tapFindings turns what the tap actor saw into violations.
func (c *ctx) tapFindings() {
	for _, e := range c.r.Events {
		if e.Kind != "tap-finding" {
			continue
		}
		parts := strings.SplitN(e.S, "|", 3)
		if len(parts) == 3 {
			c.vs(parts[0], parts[1], "tap: %s", parts[2])
		}
	}
}

// allocBound: no scheduler step may allocate more than a small multiple of the bytes
// that arrived in it (C04/C05: an announced length must not drive allocation).
func (c *ctx) allocBound() {
	delivered := map[int]int64{}
	for _, e := range c.r.Events {
		// bytes in play in a step: delivered, sent by the model peers, or written by the real
		// client (which builds, obfuscates and marshals its own packet in that step)
		if e.Kind == "deliver" || e.Kind == "deliver-s2c" || e.Kind == "cli-send" || e.Kind == "msrv-send" || e.Kind == "cwrite" {
			delivered[e.Step] += e.A
			if e.Kind == "msrv-send" {
				delivered[e.Step] += int64(len(e.Bytes))
			}
		}
	}
	for _, e := range c.r.Events {
		if e.Kind == "alloc" {
			lim := int64(2<<20) + 24*(delivered[e.Step]+delivered[e.Step-1])
			if e.A > lim {
				c.v("C04/allocation-unbounded", "step %d allocated %d bytes while %d bytes arrived", e.Step, e.A, delivered[e.Step])
				c.v("C05/allocation-unbounded", "step %d allocated %d bytes while %d bytes arrived", e.Step, e.A, delivered[e.Step])
			}
		}
	}
}

// realClientVsModel: a real tacquito.Client talks to the model server (no tacquito
// server in the run).
func (c *ctx) realClientVsModel() {
	for i := range c.p.Scen.Clients {
		if c.p.Scen.Clients[i].Real {
			c.realClientConn(i)
		}
	}
}

func (c *ctx) realClientConn(i int) {
	cs := &c.p.Scen.Clients[i]
	id := i + 1
	// observations keyed by op index
	clearOf := map[int][]byte{}
	marshalErr := map[int]string{}
	sendErr := map[int]string{}
	replyH := map[int]model.Header{}
	replyB := map[int][]byte{}
	decoded := map[int]plan.BodySpec{}
	decErr := map[int]string{}
	var recv [][]byte
	for _, e := range c.r.Events {
		if e.Conn != id {
			continue
		}
		switch e.Kind {
		case "rc-clear":
			clearOf[int(e.A)] = e.Bytes
		case "rc-marshal-err":
			marshalErr[int(e.A)] = e.S
		case "rc-send-err":
			sendErr[int(e.A)] = e.S
		case "rc-reply":
			var h model.Header
			_ = json.Unmarshal([]byte(e.S), &h)
			replyH[int(e.A)] = h
			replyB[int(e.A)] = e.Bytes
			if e.Bytes == nil {
				replyB[int(e.A)] = []byte{}
			}
		case "rc-decoded":
			var b plan.BodySpec
			_ = json.Unmarshal([]byte(e.S), &b)
			decoded[int(e.A)] = b
		case "rc-decode-err":
			decErr[int(e.A)] = e.S
		case "msrv-recv":
			recv = append(recv, e.Bytes)
		}
	}
	executed := func(op int) bool {
		_, a := clearOf[op]
		_, b := marshalErr[op]
		_, d := sendErr[op]
		_, e := replyH[op]
		return a || b || d || e
	}
	nReq := 0  // requests that must have reached the wire so far
	nRead := 0 // replies Send has returned so far
	for k, op := range cs.Ops {
		if op.Kind != "send" || op.Pkt == nil {
			continue
		}
		if !executed(k) {
			return // the run ended before this op
		}
		ps := op.Pkt
		hdrOK := ps.Ver>>4 == 0xc && ps.Ver&0xf <= 1 && ps.Type >= 1 && ps.Type <= 3 && ps.Seq != 0 && ps.SeqWide == 0
		body := ps.Body
		rep := body.Kind == "raw" || body.Representable()
		tooBig := len(body.Encode()) > model.MaxBody
		if !rep {
			// C02: an unrepresentable value must be refused and nothing may reach the wire
			if _, refused := marshalErr[k]; !refused {
				wire := ""
				if nReq < len(recv) {
					wire = trunc(recv[nReq])
				}
				c.vs("C02/unrepresentable-value-encoded", body.Kind, "client op %d: %s value that does not fit its wire widths or breaks validation was encoded without error (wire %s)", k, body.Kind, wire)
				return
			}
			continue
		}
		if me, refused := marshalErr[k]; refused {
			c.vs("C02/representable-value-refused", body.Kind, "client op %d: encoder refused a representable %s value: %s", k, body.Kind, me)
			return
		}
		if !hdrOK || tooBig {
			// the header is not one the library accepts: Send must fail, nothing on the wire
			if _, failed := sendErr[k]; !failed {
				c.v("C02/invalid-header-sent", "client op %d: packet with a header the wire cannot represent (sequence number %d/%d, version %#x, type %d) or an oversize body was sent", k, ps.Seq, ps.SeqWide, ps.Ver, ps.Type)
			}
			return // Send's write failed: the device would give up on this connection
		}
		clear := clearOf[k]
		want := body.Encode()
		if body.Kind != "raw" && !bytes.Equal(clear, want) {
			c.vs("C01/encode-layout-differs", body.Kind, "client op %d: library encoding of %s is %s, RFC layout is %s", k, body.Kind, trunc(clear), trunc(want))
			return
		}
		if nReq >= len(recv) {
			if _, failed := sendErr[k]; !failed {
				c.v("C05/request-not-on-wire", "client op %d: Send returned without error but no complete packet reached the peer", k)
			}
			return
		}
		wire := recv[nReq]
		nReq++
		h := model.Header{Version: ps.Ver, Type: ps.Type, Seq: ps.Seq, Flags: ps.Flags, Session: ps.Session, Length: uint32(len(clear))}
		if !bytes.Equal(wire[:model.HeaderLen], h.Encode()) {
			c.v("C01/header-layout-differs", "client op %d: header on the wire %x, RFC layout %x", k, wire[:model.HeaderLen], h.Encode())
			return
		}
		if !bytes.Equal(wire[model.HeaderLen:], model.Obfuscate(h, cs.Key, clear)) {
			cls := "C03/wire-body-not-cleartext-xor-pad"
			if ps.Flags&model.FlagUnencrypted != 0 {
				cls = "C03/clear-flag-body-altered"
			}
			c.v(cls, "client op %d %s: body on the wire %s is not the cleartext %s XOR the RFC pad", k, hstr(h), trunc(wire[model.HeaderLen:]), trunc(clear))
			return
		}
		// ---- reply direction: the n-th Send returns the n-th reply on the stream (requests
		// sent with SendOnly leave theirs for a later Send)
		if ps.Only {
			continue
		}
		var sr *plan.SrvReply
		if nRead < len(cs.SrvReplies) {
			sr = &cs.SrvReplies[nRead]
		}
		nRead++
		if sr == nil || sr.Pkt == nil {
			continue
		}
		rp := sr.Pkt
		rclear := rp.Body.Encode()
		rh := model.Header{Version: rp.Ver, Type: rp.Type, Seq: rp.Seq, Flags: rp.Flags, Session: rp.Session, Length: uint32(len(rclear))}
		intact := !rp.Mangled() && rh.ValidHeader()
		gh, got := replyH[k]
		if !intact {
			if got {
				c.vs("C05/damaged-reply-accepted", mangleKind(rp), "client op %d: reply %s was cut, corrupted or oversize on the wire, yet Send returned a packet %s with %d body bytes", k, hstr(rh), hstr(gh), len(replyB[k]))
			}
			return // the stream is desynchronised from here on
		}
		if !got {
			if c.p.Scen.Faulty || c.p.Scen.Stall {
				return
			}
			c.v("C05/reply-lost", "client op %d: intact reply %s was delivered in full but Send failed: %s", k, hstr(rh), sendErr[k])
			return
		}
		wantH := rh
		if rh.Seq == 2 {
			wantH.Flags |= model.FlagSingleConnect // documented: set on sequence number 2
		}
		if gh != wantH {
			c.v("C01/reply-header-decode-differs", "client op %d: reply header decoded as %s, RFC bytes carry %s", k, hstr(gh), hstr(wantH))
			return
		}
		srvKey := cs.SrvKey
		if rp.Key != nil {
			srvKey = rp.Key
		}
		expClear := plan.ServerView(rh, rclear, srvKey, cs.Key)
		if !bytes.Equal(replyB[k], expClear) {
			cls := "C03/reply-not-recovered"
			if len(replyB[k]) != len(expClear) {
				cls = "C05/reply-body-length-differs"
			}
			c.v(cls, "client op %d: reply body after deobfuscation is %s, sender's cleartext %s", k, trunc(replyB[k]), trunc(expClear))
			return
		}
		if bytes.Equal(srvKey, cs.Key) || rh.Flags&model.FlagUnencrypted != 0 {
			if rp.Body.Kind != "raw" && rp.Body.Representable() && rp.Body.Kind == replyKindOfType(rh.Type) {
				if de, bad := decErr[k]; bad {
					c.vs("C01/decode-rejects-rfc-bytes", rp.Body.Kind, "client op %d: library decoder rejected an RFC-laid-out %s: %s", k, rp.Body.Kind, de)
				} else if d, ok := decoded[k]; ok && !d.Same(rp.Body) {
					c.vs("C01/decode-differs", rp.Body.Kind, "client op %d: library decoder of %s yields a different value than the RFC layout carries", k, rp.Body.Kind)
					c.vs("C02/decoded-value-differs", rp.Body.Kind, "client op %d: a %s value that encodes without error decodes, without error, to a different value", k, rp.Body.Kind)
				}
			}
		}
	}
}

func mangleKind(p *plan.PktSpec) string {
	switch {
	case p.LenOverride != nil:
		return "length"
	case p.Trunc != nil:
		return "truncated"
	case p.FlipBit != nil:
		return "flipped"
	}
	return "header"
}

func replyKindOfType(typ uint8) string {
	switch typ {
	case model.TypeAuthen:
		return model.KAuthenReply
	case model.TypeAuthor:
		return model.KAuthorReply
	case model.TypeAcct:
		return model.KAcctReply
	}
	return ""
}

var _ = world.Ev{}
