// Package oracle evaluates the properties over a finished run: the plan says what was
// sent and scripted, the history says what the real code did, the model says what it
// should have done.
package oracle

import (
	"encoding/json"
	"fmt"
	"strings"

	"tqsim/model"
	"tqsim/plan"
	"tqsim/runner"
	"tqsim/world"
)

// Violation is one oracle failure.
type Violation struct {
	Property string `json:"property"`
	Class    string `json:"class"`  // stable oracle-clause id, e.g. "C08/dispatched-after-violation"
	Sig      string `json:"sig"`    // finer stable signature (clause + call site / minimal history shape)
	Detail   string `json:"detail"` // human readable
}

type ctx struct {
	p    *plan.Plan
	r    *runner.Result
	out  []Violation
	seen map[string]bool
	// accounting requests acknowledged with SUCCESS, for the content-based sink ledger
	acctOK []model.AcctRequest
	// reference scenarios: the document and scope the connection under judgement is bound to
	curDoc   *model.Doc
	curScope string
}

func (c *ctx) v(class, format string, args ...interface{}) {
	c.vs(class, "", format, args...)
}

// vs reports a violation with a finer signature suffix.
func (c *ctx) vs(class, sub, format string, args ...interface{}) {
	prop := class
	if i := strings.Index(class, "/"); i > 0 {
		prop = class[:i]
	}
	if c.seen[class] {
		return // one per class per run keeps reports small
	}
	c.seen[class] = true
	sig := class
	if sub != "" {
		sig = class + ":" + sub
	}
	c.out = append(c.out, Violation{Property: prop, Class: class, Sig: sig, Detail: fmt.Sprintf(format, args...)})
}

// Check evaluates every clause that applies to the run and returns all violations,
// whichever property they belong to; callers filter by property.
func Check(p *plan.Plan, r *runner.Result) []Violation {
	c := &ctx{p: p, r: r, seen: map[string]bool{}}
	if r.Harness != "" {
		return nil
	}
	c.generic()
	c.reach()
	c.tapFindings()
	c.allocBound()
	switch {
	case p.Scen.Loader != nil:
		c.loaderHistory()
	case p.Scen.Server == "probe":
		c.probe()
	case p.Scen.Server == "ref":
		c.ref()
	case p.Scen.Server == "none":
		c.realClientVsModel()
	case p.Scen.Server == "lookup":
		c.atomicReload()
	case p.Scen.Server == "syslog-direct":
		c.syslogDirect()
	}
	if p.Scen.Server != "none" && p.Scen.Server != "lookup" && p.Scen.Server != "syslog-direct" && p.Scen.Loader == nil {
		c.shutdown()
		c.gauges()
	}
	return c.out
}

// connEvents returns the history of one connection in order.
func (c *ctx) connEvents(id int) []world.Ev {
	var out []world.Ev
	for _, e := range c.r.Events {
		if e.Conn == id {
			out = append(out, e)
		}
	}
	return out
}

// drainSeq is the history position at which the run's drain phase began.
func (c *ctx) drainSeq() int {
	for _, e := range c.r.Events {
		if e.Kind == "drain" {
			return e.Seq
		}
	}
	return 1 << 30
}

func (c *ctx) has(kind string) bool {
	for _, e := range c.r.Events {
		if e.Kind == kind {
			return true
		}
	}
	return false
}

// generic: clauses that hold for every run with a tacquito server (C14: no panic).
func (c *ctx) generic() {
	// the server must not stop serving on its own: Serve returning before any
	// cancellation, listener close or fatal accept error takes every client down
	stopAsked := false
	for _, e := range c.r.Events {
		switch {
		case e.Kind == "cancel" || e.Kind == "close-listener" || e.Kind == "drain":
			stopAsked = true
		case e.Kind == "accept-end" && e.S == "fatal":
			stopAsked = true
		case e.Kind == "serve-return" && !stopAsked:
			c.v("C14/serve-exited-unasked", "Serve returned although its context was not cancelled and the listener was neither closed nor failed fatally: clients arriving later are not served")
		}
	}
	c.blockedAdmissions()
	for _, e := range c.r.Events {
		if e.Kind == "published-mutated" {
			c.v("C15/published-config-written", "configurations published to the server (indices %s) were written afterwards: serving requests or later loads modified a published value", e.S)
			c.v("C16/published-config-modified", "configurations published to the server (indices %s) no longer equal their snapshot", e.S)
		}
		if e.Kind == "secret-mutated" {
			c.v("C03/secret-written-by-server", "the key material the secret provider handed to the server was modified (the provider's key ring no longer holds the configured keys)")
			c.v("C06/secret-written-by-server", "the key material the secret provider handed to the server was modified: later replies are not obfuscated with the connection's configured secret")
			c.v("C15/secret-written-by-server", "shared key material handed out by the secret provider was written by a connection goroutine")
		}
		if e.Kind == "body-mutated" {
			c.v("C05/body-changed-while-handled", "conn %d invocation %d: the request body the handler was given changed while the handler was running (another connection's traffic overwrote it)", e.Conn, e.A)
			c.v("C09/body-changed-while-handled", "conn %d invocation %d: the request body the handler was given changed while the handler was running", e.Conn, e.A)
		}
		if e.Kind == "retained-body-changed" {
			for _, id := range []string{"C03", "C04", "C05", "C09"} {
				c.v(id+"/retained-request-changed", "conn %d: the request body given to handler invocation %d no longer reads as received by the time invocation %d runs (a later packet on the connection was decoded over it)", e.Conn, e.A, e.B)
			}
		}
		if e.Kind == "receiver-reuse-differs" {
			site := e.S
			if k := strings.Index(site, ":"); k > 0 {
				site = site[:k]
			}
			if site == "packet" {
				c.v("C04/decoded-bytes-not-from-input", "conn %d step %d: %s", e.Conn, e.A, e.S)
			}
			for _, id := range []string{"C01", "C02"} {
				c.vs(id+"/decode-depends-on-receiver", site, "conn %d step %d: decoding the same bytes gives a different value when the receiver was used before: %s", e.Conn, e.A, e.S)
			}
		}
		if e.Kind == "rc-retained-reply-changed" {
			for _, id := range []string{"C01", "C02", "C03", "C04"} {
				c.v(id+"/retained-reply-changed", "client %d: the reply Client.Send returned for op %d changed after a later exchange on the same connection", e.Conn, e.A)
			}
		}
		if e.Kind == "panic" {
			first := e.S
			if i := strings.Index(first, "\n"); i > 0 {
				first = first[:i]
			}
			site := ""
			for _, l := range strings.Split(e.S, "\n") {
				if k := strings.Index(l, "/repo/"); k >= 0 && !strings.Contains(l, "tqsim") {
					site = strings.TrimSpace(l[k+len("/repo/"):])
					if sp := strings.IndexAny(site, " +"); sp > 0 {
						site = site[:sp]
					}
					break
				}
			}
			c.vs("C14/handler-panic", site, "conn %d: panic in handler: %s at %s", e.Conn, first, site)
		}
	}
}

type invocation struct {
	Conn    int            `json:"conn"`
	Index   int            `json:"index"`
	Handler int            `json:"handler"`
	H       model.Header   `json:"h"`
	Decoded *plan.BodySpec `json:"decoded"`
	DecErr  string         `json:"dec_err"`
	Body    []byte         `json:"-"`
	Seq     int            `json:"-"`
	Step    int            `json:"-"`
}

func parseInvoke(e world.Ev) invocation {
	var inv invocation
	_ = json.Unmarshal([]byte(e.S), &inv)
	inv.Body = e.Bytes
	inv.Seq = e.Seq
	inv.Step = e.Step
	return inv
}

func hstr(h model.Header) string {
	return fmt.Sprintf("{ver=%#x type=%d seq=%d flags=%#x sess=%d len=%d}", h.Version, h.Type, h.Seq, h.Flags, h.Session, h.Length)
}

func trunc(b []byte) string {
	if len(b) > 24 {
		return fmt.Sprintf("%x…(%d bytes)", b[:24], len(b))
	}
	return fmt.Sprintf("%x", b)
}

// blockedAdmissions (C14: other clients keep being served): when the only seams armed in a
// run are slow keychain queries of some scopes, a connection of any other scope must get
// its admission decision while those queries are still pending, i.e. before the run is
// drained.
func (c *ctx) blockedAdmissions() {
	if c.p.Scen.Server != "ref" || len(c.p.Park) == 0 || len(c.p.Scen.Docs) != 1 {
		return
	}
	slow := map[string]bool{}
	for _, s := range c.p.Park {
		if !strings.HasPrefix(s, "scope-keychain:") {
			return
		}
		slow[strings.TrimPrefix(s, "scope-keychain:")] = true
	}
	d := c.p.Scen.Docs[0]
	d.Normalize()
	began := map[int]bool{}
	ended := map[int]bool{}
	for _, e := range c.r.Events {
		if e.Kind == "drain" {
			break
		}
		switch e.Kind {
		case "get-begin":
			began[e.Conn] = true
		case "get-end":
			ended[e.Conn] = true
		}
	}
	for i := range c.p.Scen.Clients {
		id := i + 1
		if !began[id] || ended[id] {
			continue
		}
		adm := plan.RefAdmission(d, &c.p.Scen.Clients[i])
		if adm.Band != "" || slow[adm.Key] {
			continue
		}
		c.v("C14/admission-blocked-behind-another-lookup", "conn %d from %s asked for admission and got no decision while the keychain query of another scope was pending: one slow lookup stops every other client from being served", id, c.p.Scen.Clients[i].Addr)
	}
}
