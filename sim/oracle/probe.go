package oracle

import (
	"bytes"
	"strings"

	"tqsim/model"
	"tqsim/plan"
	"tqsim/world"
)

// probe evaluates the library-level scenarios (scripted provider, probe handlers).
func (c *ctx) probe() {
	for i := range c.p.Scen.Clients {
		c.probeConn(i)
	}
}

func (c *ctx) probeConn(i int) {
	cs := &c.p.Scen.Clients[i]
	if cs.Real {
		c.realClientConn(i)
		return
	}
	id := i + 1
	evs := c.connEvents(id)
	if len(evs) == 0 {
		return // never dialled
	}
	var invs []invocation
	closed := false
	closeStep := -1
	deadlineFired := false
	drain := c.drainSeq()
	for _, e := range evs {
		switch e.Kind {
		case "invoke":
			invs = append(invs, parseInvoke(e))
		case "close":
			if !closed {
				closeStep = e.Step
			}
			if e.Seq < drain {
				closed = true // closed by the server on its own, not by the end-of-run shutdown
			}
		case "read-end":
			if strings.HasSuffix(e.S, "i/o timeout") && e.Seq < drain {
				deadlineFired = true
			}
		}
	}
	replies := c.r.Replies[id]
	tail := c.r.Tail[id]
	srvKey := cs.SrvKey
	if srvKey == nil {
		srvKey = []byte{}
	}

	if cs.Refuse {
		if len(invs) > 0 {
			c.v("C13/refused-but-invoked", "conn %d refused by the provider, yet a handler ran", id)
		}
		if len(replies) > 0 || len(tail) > 0 {
			c.v("C13/refused-but-written", "conn %d refused by the provider, yet %d packets / %d bytes were written", id, len(replies), len(tail))
		}
		return
	}

	preds, complete, _, resets := plan.Predict(cs)
	quiet := !c.p.Scen.Stall && !c.p.Scen.Faulty && len(cs.WFault) == 0 && !resets && !deadlineFired && !c.cancelledEarly() && c.allDelivered(id)

	// ---- invocations against predictions (C05 framing, C08 dispatch, C19) ----
	k := 0 // index into invs
	var expReplies []plan.Pred
	served := map[uint32]bool{} // sessions that had a packet dispatched earlier on this connection
	for _, pr := range preds {
		switch pr.Kind {
		case "dispatch":
			if k >= len(invs) {
				if quiet {
					c.v("C05/packet-not-delivered", "conn %d: packet op %d %s was sent in full and never reached a handler (got %d invocations)", id, pr.Op, hstr(pr.H), len(invs))
					if pr.SameKey && c.logHas("bad secret detected") {
						c.v("C03/valid-packet-read-as-key-mismatch", "conn %d: packet op %d %s was obfuscated (or sent in clear) exactly as the connection's secret and its flags say, yet the receiver did not recover the cleartext and treated it as a key mismatch", id, pr.Op, hstr(pr.H))
						c.v("C19/valid-request-flagged", "conn %d: request %s is well-formed under the connection's secret yet was treated as a key mismatch", id, hstr(pr.H))
					}
					if sessionsOn(cs) > 1 {
						c.v("C09/multiplexed-session-disturbed", "conn %d carries %d sessions; packet op %d %s of one of them never reached a handler although every packet follows the rules: what happened to another session's request ended this one", id, sessionsOn(cs), pr.Op, hstr(pr.H))
					}
					if pr.Handler == 0 && served[pr.H.Session] {
						c.v("C08/finished-session-remembered", "conn %d: packet op %d %s reuses the id of a session that finished earlier on this connection; it must start from the initial handler, but no handler ran (something of the finished session was retained)", id, pr.Op, hstr(pr.H))
					}
				}
				goto replies
			}
			inv := invs[k]
			k++
			served[pr.H.Session] = true
			if inv.H != pr.H {
				if x := inv.H; x.Flags != pr.H.Flags {
					x.Flags = pr.H.Flags
					if x == pr.H {
						c.v("C03/flags-altered-on-receipt", "conn %d invocation %d: the packet arrived with flags %#x, the handler was given %#x: the receiver rewrote the flag octet (and with it whether the body is read as clear or obfuscated)", id, inv.Index, pr.H.Flags, inv.H.Flags)
					}
				}
				c.v("C05/header-differs", "conn %d invocation %d: handler saw header %s, client sent %s", id, inv.Index, hstr(inv.H), hstr(pr.H))
				goto replies
			}
			if !bytes.Equal(inv.Body, pr.Body) {
				cls := "C05/body-differs"
				if pr.H.Flags&model.FlagUnencrypted == 0 {
					// the same comparison is the obfuscation round trip client->server
					cls = "C03/deobfuscated-body-differs"
					if len(inv.Body) != len(pr.Body) {
						cls = "C05/body-differs"
					}
				}
				c.v(cls, "conn %d invocation %d %s: handler saw body %s, expected %s", id, inv.Index, hstr(pr.H), trunc(inv.Body), trunc(pr.Body))
				goto replies
			}
			if inv.Handler != pr.Handler {
				c.v("C08/wrong-handler", "conn %d invocation %d %s: dispatched to handler %d, session model says %d", id, inv.Index, hstr(pr.H), inv.Handler, pr.Handler)
			}
			// decode direction of C01: library decoder applied to model-encoded bytes
			if pr.Step.Decode != "" && pr.Step.Decode == pr.Spec.Body.Kind && pr.Spec.Body.Representable() {
				if inv.DecErr != "" {
					c.v("C01/decode-rejects-rfc-bytes", "conn %d invocation %d: library decoder %s rejected RFC-laid-out bytes: %s", id, inv.Index, pr.Step.Decode, inv.DecErr)
				} else if inv.Decoded != nil && !inv.Decoded.Same(pr.Spec.Body) {
					c.v("C01/decode-differs", "conn %d invocation %d: library decoder %s yields a different value than the RFC layout carries", id, inv.Index, pr.Step.Decode)
					c.vs("C02/decoded-value-differs", pr.Step.Decode, "conn %d invocation %d: a %s value that encodes without error decodes, without error, to a different value", id, inv.Index, pr.Step.Decode)
				}
			}
			pr.Lost = c.replyWriteRefused(id, inv.Index)
			expReplies = append(expReplies, pr)
			if len(cs.Handler) > inv.Index && len(cs.Handler[inv.Index].Extra) > 0 {
				// several Reply calls: judged by the reply packets only
			} else if pr.Step.Reply != nil && !pr.Step.Reply.Sendable() {
				// C02 on the server side: Reply must fail and write nothing for a value
				// that does not fit its wire widths or breaks validation
				if res, ok := c.replyResult(id, inv.Index); ok && res == "" {
					c.vs("C02/unrepresentable-reply-encoded", pr.Step.Reply.Kind, "conn %d invocation %d: Reply accepted a %s value that does not fit its wire widths or breaks the type's validation rules", id, inv.Index, pr.Step.Reply.Kind)
				}
			} else if pr.Step.Reply != nil {
				if res, ok := c.replyResult(id, inv.Index); ok && res != "" && pr.H.Seq != 255 {
					c.vs("C02/representable-reply-refused", pr.Step.Reply.Kind, "conn %d invocation %d: Reply refused a representable %s value: %s", id, inv.Index, pr.Step.Reply.Kind, res)
				}
			}
		case "terminate", "badsecret", "truncated", "oversize":
			if k < len(invs) {
				inv := invs[k]
				if inv.H != pr.H && (pr.Kind == "terminate" || pr.Kind == "badsecret") {
					c.vs("C07/processed-after-reject", pr.Why, "conn %d: packet op %d %s was rejected (%s) yet a handler ran afterwards with %s: the connection was not closed", id, pr.Op, hstr(pr.H), pr.Why, hstr(inv.H))
				}
				switch pr.Kind {
				case "terminate":
					sub := pr.Why
					if pr.Why == "non-increasing-seq" && sessionSaw255(cs, pr.Op, pr.H.Session) {
						sub = "after-request-255"
					}
					c.vs("C08/dispatched-after-violation", sub, "conn %d: packet op %d %s violates the sequence rules (%s) but a handler ran with %s", id, pr.Op, hstr(pr.H), pr.Why, hstr(inv.H))
					if sub == "after-request-255" {
						c.v("C06/exhausted-session-continued", "conn %d: the session of packet op %d %s had used up its sequence numbers (request 255), yet the packet was handled: whatever is replied to it carries a number of a second lap", id, pr.Op, hstr(pr.H))
					}
				case "badsecret":
					c.v("C19/mismatch-processed", "conn %d: packet op %d %s has the key-mismatch signature but a handler ran", id, pr.Op, hstr(pr.H))
				case "truncated":
					c.v("C05/short-packet-dispatched", "conn %d: stream ended inside packet op %d %s but a handler ran with %s body %s", id, pr.Op, hstr(pr.H), hstr(inv.H), trunc(inv.Body))
					c.v("C04/value-from-truncated-input", "conn %d: the stream ended inside packet op %d %s, yet the reader returned a packet (the handler saw %s body %s): bytes that were never in the input", id, pr.Op, hstr(pr.H), hstr(inv.H), trunc(inv.Body))
				case "oversize":
					c.v("C05/oversize-dispatched", "conn %d: header announcing %d bytes reached a handler", id, pr.H.Length)
				}
			}
			if pr.Kind == "badsecret" {
				expReplies = append(expReplies, pr)
			}
			if pr.Kind == "truncated" {
				want := 0
				for _, x := range expReplies {
					if x.Reply {
						want++
					}
				}
				if len(replies) > want && len(cs.WFault) == 0 {
					for _, pid := range []string{"C04", "C05"} {
						c.v(pid+"/truncated-packet-answered", "conn %d: the stream ended inside packet op %d %s, yet the server wrote %d packets where %d answer the complete packets before it: a packet was made from bytes that never arrived", id, pr.Op, hstr(pr.H), len(replies), want)
					}
				}
			}
			if pr.Kind == "oversize" && quiet && len(c.p.Park) == 0 {
				c.oversizeTiming(id, pr, closeStep)
			}
			if (pr.Kind == "terminate" || pr.Kind == "badsecret") && quiet && !closed {
				c.v("C07/rejected-not-closed", "conn %d: packet op %d rejected (%s) but the connection was not closed", id, pr.Op, pr.Why)
			}
			goto replies
		}
	}
	if complete && k < len(invs) {
		c.v("C05/extra-invocation", "conn %d: %d invocations for %d packets sent; extra one saw %s", id, len(invs), k, hstr(invs[k].H))
	}
replies:
	c.probeReplies(id, cs, srvKey, expReplies, replies, tail, complete, quiet)
}

// sessionsOn counts the distinct session ids a client script uses.
func sessionsOn(cs *plan.ClientSpec) int {
	m := map[uint32]bool{}
	for _, o := range cs.Ops {
		if o.Kind == "send" && o.Pkt != nil {
			m[o.Pkt.Session] = true
		}
	}
	return len(m)
}

// replyWriteRefused: inside the given handler invocation the transport refused a write
// outright (all-or-nothing failure): that reply is not on the wire, and nothing of it.
func (c *ctx) replyWriteRefused(conn, idx int) bool {
	in := false
	for _, e := range c.r.Events {
		if e.Conn != conn {
			continue
		}
		switch e.Kind {
		case "invoke":
			in = int(e.A) == idx
		case "invoke-end":
			if int(e.A) == idx {
				return false
			}
		case "write":
			if in && e.S == "error" {
				return true
			}
		}
	}
	return false
}

// replyResult returns the error text (empty = success) of the first Reply call made
// inside the given invocation.
func (c *ctx) replyResult(conn, idx int) (string, bool) {
	in := false
	for _, e := range c.r.Events {
		if e.Conn != conn {
			continue
		}
		switch e.Kind {
		case "invoke":
			in = int(e.A) == idx
		case "invoke-end":
			if int(e.A) == idx {
				return "", false
			}
		case "reply-result":
			if in {
				return e.S, true
			}
		}
	}
	return "", false
}

// sessionSaw255: an earlier packet of the same session on this connection was numbered 255.
func sessionSaw255(cs *plan.ClientSpec, before int, sess uint32) bool {
	for i := 0; i < before && i < len(cs.Ops); i++ {
		if o := cs.Ops[i]; o.Kind == "send" && o.Pkt.Session == sess && o.Pkt.Seq == 255 {
			return true
		}
	}
	return false
}

// cancelledEarly: a cancel control event was applied before the drain phase.
func (c *ctx) cancelledEarly() bool {
	for _, e := range c.r.Events {
		if e.Kind == "drain" {
			return false
		}
		if e.Kind == "cancel" || e.Kind == "close-listener" {
			return true
		}
	}
	return false
}

// allDelivered: every byte the client wrote had been delivered before the drain began.
func (c *ctx) allDelivered(id int) bool {
	sent, delivered := int64(0), int64(0)
	for _, e := range c.r.Events {
		if e.Kind == "drain" {
			break
		}
		if e.Conn != id {
			continue
		}
		switch e.Kind {
		case "cli-send":
			sent += e.A
		case "deliver":
			delivered += e.A
		}
	}
	return sent == delivered
}

func (c *ctx) oversizeTiming(id int, pr plan.Pred, closeStep int) {
	// step in which the 12th byte of the oversize header was delivered
	cum := int64(0)
	at := -1
	for _, e := range c.r.Events {
		if e.Conn == id && e.Kind == "deliver" {
			cum += e.A
			if cum >= int64(pr.Offset+model.HeaderLen) {
				at = e.Step
				break
			}
		}
	}
	if at < 0 {
		return
	}
	c.r.Probes["oversize-header-delivered"]++
	if closeStep < 0 || closeStep > at {
		c.v("C05/oversize-not-refused-at-once", "conn %d: header announcing %d bytes fully delivered in step %d; connection closed in step %d (must be refused without waiting for the body)", id, pr.H.Length, at, closeStep)
	}
	// no Read may begin after the header is complete
	reads := 0
	for _, e := range c.r.Events {
		if e.Conn == id && e.Kind == "read-begin" && e.Step > at {
			reads++
		}
	}
	if reads > 0 {
		c.v("C05/oversize-read-continues", "conn %d: %d further reads after an oversize header", id, reads)
	}
}

// probeReplies checks what the server wrote against what the handlers were scripted to
// reply (C06 mirror rules, C03 obfuscation, C01 reply layout, C07 one reply, C19 error packet).
func (c *ctx) probeReplies(id int, cs *plan.ClientSpec, srvKey []byte, exp []plan.Pred, got []model.Packet, tail []byte, complete, quiet bool) {
	if len(tail) > 0 {
		c.v("C06/trailing-bytes", "conn %d: %d bytes after the last complete reply packet: %s", id, len(tail), trunc(tail))
	}
	g := 0
	for _, pr := range exp {
		if pr.Kind == "badsecret" {
			if g >= len(got) {
				if quiet {
					c.v("C19/no-error-packet", "conn %d: key-mismatch request %s got no error packet", id, hstr(pr.H))
				}
				return
			}
			rp := got[g]
			g++
			c.checkBadSecretReply(id, pr, rp, srvKey)
			if g < len(got) {
				c.v("C07/written-after-reject", "conn %d: %d packets written after the key-mismatch error packet", id, len(got)-g)
			}
			return
		}
		n := 0
		if pr.Reply && !pr.Lost {
			n = 1
		}
		if pr.Step.Reply != nil && !pr.Reply && pr.H.Seq == 255 {
			c.r.Probes["request-255"]++
		}
		if n == 0 {
			continue
		}
		if g >= len(got) {
			if quiet {
				c.v("C07/missing-reply", "conn %d: request %s got no reply packet", id, hstr(pr.H))
			}
			return
		}
		rp := got[g]
		g++
		c.checkReply(id, pr, rp, srvKey)
	}
	if complete && g < len(got) {
		rp := got[g]
		cls := "C07/extra-reply"
		if rp.H.Seq == 0 {
			cls = "C06/seq-zero-emitted"
		}
		c.v(cls, "conn %d: %d reply packets for %d expected; extra %s", id, len(got), g, hstr(rp.H))
	}
}

func (c *ctx) checkReply(id int, pr plan.Pred, rp model.Packet, srvKey []byte) {
	req := pr.H
	want := model.Header{Version: req.Version, Type: req.Type, Seq: pr.ReplySeq, Flags: req.Flags, Session: req.Session}
	clear := pr.Step.Reply.Encode()
	want.Length = uint32(len(clear))
	if rp.H.Session != want.Session {
		c.v("C06/session-differs", "conn %d: reply %s to request %s", id, hstr(rp.H), hstr(req))
	}
	if rp.H.Type != want.Type {
		c.v("C06/type-differs", "conn %d: reply %s to request %s", id, hstr(rp.H), hstr(req))
	}
	if rp.H.Version != want.Version {
		c.v("C06/version-differs", "conn %d: reply %s to request %s", id, hstr(rp.H), hstr(req))
	}
	if rp.H.Flags != want.Flags {
		c.v("C06/flags-differ", "conn %d: reply %s to request %s", id, hstr(rp.H), hstr(req))
	}
	if rp.H.Seq != want.Seq {
		c.v("C06/seq-differs", "conn %d: reply %s to request %s, expected seq %d", id, hstr(rp.H), hstr(req), want.Seq)
	}
	if int(rp.H.Length) != len(rp.Body) {
		c.v("C06/length-differs", "conn %d: reply length field %d, %d body bytes", id, rp.H.Length, len(rp.Body))
	}
	// body: wire = cleartext XOR pad(server key) unless the request's clear flag was set
	wantWire := model.Obfuscate(want, srvKey, clear)
	if !bytes.Equal(rp.Body, wantWire) {
		if len(rp.Body) == len(clear) && bytes.Equal(rp.Body, clear) && req.Flags&model.FlagUnencrypted == 0 {
			c.v("C06/reply-not-obfuscated", "conn %d: reply to obfuscated request %s travels in the clear", id, hstr(req))
		} else if len(rp.Body) == len(clear) && req.Flags&model.FlagUnencrypted != 0 {
			c.v("C06/reply-obfuscated-for-clear-request", "conn %d: reply to clear request %s is not verbatim", id, hstr(req))
		} else if len(rp.Body) != len(clear) {
			c.v("C01/reply-layout-differs", "conn %d: reply body has %d bytes, RFC layout of the replied value has %d", id, len(rp.Body), len(clear))
		} else {
			// same length: either the pad or the layout differs; deobfuscate with the
			// header actually sent to tell them apart
			c.v("C06/reply-not-obfuscated-with-connection-secret", "conn %d: the reply to %s does not deobfuscate to the replied value with the connection's secret", id, hstr(req))
			de := model.Obfuscate(rp.H, srvKey, rp.Body)
			if bytes.Equal(de, clear) {
				c.v("C03/pad-inputs-differ", "conn %d: reply body deobfuscates only with the header as sent %s, not with the mirrored header", id, hstr(rp.H))
			} else {
				c.v("C03/reply-pad-or-layout-differs", "conn %d: reply %s body %s is not cleartext XOR RFC pad (cleartext %s)", id, hstr(rp.H), trunc(rp.Body), trunc(clear))
			}
		}
	}
}

func (c *ctx) checkBadSecretReply(id int, pr plan.Pred, rp model.Packet, srvKey []byte) {
	if rp.H.Type != pr.H.Type {
		c.v("C19/error-packet-type", "conn %d: key-mismatch on type %d answered with type %d", id, pr.H.Type, rp.H.Type)
		return
	}
	body := model.Obfuscate(rp.H, srvKey, rp.Body)
	status := -1
	switch rp.H.Type {
	case model.TypeAuthen:
		if v, err := model.DecodeAuthenReply(body); err == nil {
			status = int(v.Status)
			if v.Status != 7 {
				status = -2
			}
		}
	case model.TypeAuthor:
		if v, err := model.DecodeAuthorReply(body); err == nil {
			status = int(v.Status)
			if v.Status != 0x11 {
				status = -2
			}
		}
	case model.TypeAcct:
		if v, err := model.DecodeAcctReply(body); err == nil {
			status = int(v.Status)
			if v.Status != 2 {
				status = -2
			}
		}
	}
	if status == -1 {
		c.v("C19/error-packet-undecodable", "conn %d: key-mismatch error packet does not decode under the server's secret: %s", id, trunc(body))
	} else if status == -2 {
		c.v("C19/error-packet-status", "conn %d: key-mismatch answered with a non-error status", id)
	}
}

var _ = world.Ev{}
