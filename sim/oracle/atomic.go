package oracle

import (
	"fmt"
	"strings"
	"time"

	"github.com/anishathalye/porcupine"

	"tqsim/model"
	"tqsim/plan"
)

type lkIn struct {
	Publish bool
	Ver     int
	Client  int
}

// atomicReload is the second clause of C15: every lookup observes one complete
// configuration. The history of publications (call: the document is handed to the
// loader; return: the loader reports all filters updated) and lookups (call/return of
// Get) is checked for linearizability against a single register holding the version.
func (c *ctx) atomicReload() {
	docs := c.p.Scen.Docs
	// expected outcome of each client address under each version
	type exp struct {
		outs map[string]bool
	}
	expect := make([][]exp, len(docs))
	for vi := range docs {
		d := docs[vi]
		d.Normalize()
		expect[vi] = make([]exp, len(c.p.Scen.Clients))
		for ci := range c.p.Scen.Clients {
			adm := plan.RefAdmission(d, &c.p.Scen.Clients[ci])
			e := exp{outs: map[string]bool{}}
			if adm.Band != "" {
				e.outs["refused"] = true
				if adm.Key != "" {
					e.outs["key:"+adm.Key] = true
				}
				// a skipped scope may fall through to a later matching one
				for _, s := range d.Secrets {
					e.outs["key:"+s.Secret.Key] = true
				}
			} else if adm.Admit {
				e.outs["key:"+adm.Key] = true
			} else {
				e.outs["refused"] = true
			}
			expect[vi][ci] = e
		}
	}
	var ops []porcupine.Operation
	getCall := map[int]int{}
	var pubCalls []struct{ ver, seq int }
	for _, e := range c.r.Events {
		switch {
		case e.Kind == "get-begin" && e.Conn > 0:
			getCall[e.Conn] = e.Seq
		case e.Kind == "get-end" && e.Conn > 0:
			out := "refused"
			if e.A == 1 {
				out = "key:" + string(e.Bytes)
			}
			ops = append(ops, porcupine.Operation{ClientId: e.Conn, Input: lkIn{Client: e.Conn - 1}, Call: int64(getCall[e.Conn]), Output: out, Return: int64(e.Seq)})
		case e.Kind == "publish":
			pubCalls = append(pubCalls, struct{ ver, seq int }{int(e.A), e.Seq})
		case e.Kind == "log" && strings.Contains(e.S, "updated all prefix filters"):
			if len(pubCalls) > 0 {
				pc := pubCalls[0]
				pubCalls = pubCalls[1:]
				ops = append(ops, porcupine.Operation{ClientId: 1000 + pc.ver, Input: lkIn{Publish: true, Ver: pc.ver}, Call: int64(pc.seq), Output: "", Return: int64(e.Seq)})
			}
		}
	}
	// a publication still in flight at the end may or may not have taken effect
	for _, pc := range pubCalls {
		ops = append(ops, porcupine.Operation{ClientId: 1000 + pc.ver, Input: lkIn{Publish: true, Ver: pc.ver}, Call: int64(pc.seq), Output: "", Return: int64(len(c.r.Events) + 10)})
	}
	if len(ops) == 0 {
		return
	}
	if len(ops) > 40 {
		ops = ops[:40]
	}
	m := porcupine.Model{
		Init: func() interface{} { return 0 },
		Step: func(state, input, output interface{}) (bool, interface{}) {
			in := input.(lkIn)
			if in.Publish {
				return true, in.Ver
			}
			v := state.(int)
			return expect[v][in.Client].outs[output.(string)], v
		},
		DescribeOperation: func(input, output interface{}) string {
			in := input.(lkIn)
			if in.Publish {
				return fmt.Sprintf("publish(v%d)", in.Ver)
			}
			return fmt.Sprintf("get(%s) -> %v", c.p.Scen.Clients[in.Client].Addr, output)
		},
	}
	switch porcupine.CheckOperationsTimeout(m, ops, 20*time.Second) {
	case porcupine.Illegal:
		var desc []string
		for _, o := range ops {
			desc = append(desc, fmt.Sprintf("[%d,%d] %s", o.Call, o.Return, m.DescribeOperation(o.Input, o.Output)))
		}
		c.v("C13/admission-not-by-one-configuration", "no configuration in force explains the outcome of some lookup: a connection was admitted, refused or bound to a key against deny-beats-allow / first-matching-scope\n   %s", strings.Join(desc, "\n   "))
		c.v("C15/lookup-mixes-configurations", "no order of publications and lookups explains the history: some lookup saw neither the old nor the new configuration\n   %s", strings.Join(desc, "\n   "))
	case porcupine.Unknown:
		c.r.Probes["linearizability-inconclusive"]++
	default:
		c.r.Probes["linearizability-checked"]++
	}
}

var _ = model.Doc{}
