package oracle

import (
	"encoding/json"

	"tqsim/model"
)

// syslogDirect judges the syslog-backed accounter (C12) on the history of the
// syslog-accounter family: per request exactly one reply; SUCCESS only with exactly one
// record of exactly that request at the daemon before the reply; undecodable requests
// and contradictory flags answered ERROR; a well-formed start or stop record with the
// daemon reachable answered SUCCESS.
func (c *ctx) syslogDirect() {
	type win struct {
		op         int
		h          model.Header
		body       []byte
		sinks      []string
		sinkAfter  []bool // the record arrived after a reply had been given
		replies    [][]byte
		sinkUpThen bool
	}
	var cur *win
	sinkUp := true
	for _, e := range c.r.Events {
		switch e.Kind {
		case "sink-down":
			sinkUp = false
		case "sink-up":
			sinkUp = true
		case "sl-request":
			cur = &win{op: int(e.A), body: e.Bytes, sinkUpThen: sinkUp}
			_ = json.Unmarshal([]byte(e.S), &cur.h)
		case "sink":
			if cur != nil {
				cur.sinks = append(cur.sinks, e.S)
				cur.sinkAfter = append(cur.sinkAfter, len(cur.replies) > 0)
			}
		case "sl-reply":
			if cur != nil {
				cur.replies = append(cur.replies, e.Bytes)
			}
		case "sl-request-end":
			if cur == nil {
				continue
			}
			w := cur
			cur = nil
			if c.connPanicked(1) {
				return
			}
			if len(w.replies) != 1 {
				sub := "none"
				if len(w.replies) > 1 {
					sub = "several"
				}
				c.vs("C12/syslog-replies-per-request", sub, "request op %d %s got %d replies from the syslog accounter, want 1 (a second reply is read by the client as the answer to its next request)", w.op, hstr(w.h), len(w.replies))
			}
			success := false
			for _, rb := range w.replies {
				if v, err := model.DecodeAcctReply(rb); err == nil && v.Status == model.AcctSuccess {
					success = true
				}
			}
			rq, err := model.DecodeAcctRequest(w.body)
			contradictory := err == nil && rq.Flags&4 != 0 && rq.Flags&8 != 0
			if success {
				if err != nil || contradictory {
					c.v("C12/success-must-be-error", "request op %d %s cannot be decoded or carries contradictory flags, yet the syslog accounter answered SUCCESS", w.op, hstr(w.h))
					continue
				}
				matching, other, after := 0, 0, false
				otherText := ""
				for i, s := range w.sinks {
					var rec acctRecord
					if json.Unmarshal([]byte(s), &rec) == nil && recordEquals(rec, rq) {
						matching++
						if w.sinkAfter[i] {
							after = true
						}
					} else {
						other++
						otherText = s
					}
				}
				switch {
				case matching == 0 && other > 0:
					c.v("C12/record-differs", "syslog accounter: SUCCESS but the record at the daemon does not decode to the request: %.200q (request user %q port %q rem %q args %q)", otherText, rq.User, rq.Port, rq.RemAddr, rq.Args)
				case matching == 0:
					c.v("C12/no-record", "syslog accounter: request op %d answered SUCCESS although no record reached the daemon (daemon reachable: %v)", w.op, w.sinkUpThen)
				case matching > 1:
					c.v("C12/duplicate-record", "syslog accounter: SUCCESS with %d identical records at the daemon", matching)
				case after:
					c.v("C12/record-after-reply", "syslog accounter: the record reached the daemon after the reply was given")
				}
				continue
			}
			if err == nil && rq.Valid() && w.sinkUpThen && (rq.Flags == 2 || rq.Flags == 4) && len(w.replies) == 1 {
				c.v("C12/error-must-be-success", "syslog accounter: well-formed start/stop record op %d with the daemon reachable was not answered SUCCESS", w.op)
			}
		}
	}
}
