package oracle

import (
	"bytes"

	"tqsim/model"
	"tqsim/plan"
	"tqsim/runner"
)

// CompareSolo is property C09: every session of the multiplexed run received exactly
// the replies it receives when it is the only session the server ever sees.
func CompareSolo(p *plan.Plan, mux *runner.Result, solos []*runner.Result, conn []int, sess []uint32) []Violation {
	c := &ctx{p: p, r: mux, seen: map[string]bool{}}
	if mux.Harness != "" {
		return nil
	}
	// a session whose exchange was cut short in the multiplexed run by the run's end
	// is compared on the prefix it got to
	killers := map[int]bool{}
	for i, s := range solos {
		if s != nil && s.Harness == "" && closesOnItsOwn(s) {
			killers[conn[i]] = true
		}
	}
	for i, s := range solos {
		if s == nil || s.Harness != "" {
			continue
		}
		var want []model.Packet
		for _, rp := range s.Replies[1] {
			if rp.H.Session == sess[i] {
				want = append(want, rp)
			}
		}
		var got []model.Packet
		for _, rp := range mux.Replies[conn[i]] {
			if rp.H.Session == sess[i] {
				got = append(got, rp)
			}
		}
		n := len(got)
		if len(want) < n {
			c.v("C09/extra-replies", "conn %d session %d: %d replies when multiplexed, %d when alone", conn[i], sess[i], len(got), len(want))
			continue
		}
		for k := 0; k < n; k++ {
			if got[k].H != want[k].H || !bytes.Equal(got[k].Body, want[k].Body) {
				c.v("C09/reply-differs", "conn %d session %d reply %d: multiplexed %s body %s, alone %s body %s", conn[i], sess[i], k, hstr(got[k].H), trunc(got[k].Body), hstr(want[k].H), trunc(want[k].Body))
				break
			}
		}
		if n < len(want) && c.sessionFullySent(conn[i], sess[i]) && !c.p.Scen.Faulty {
			if killers[conn[i]] {
				// one of the sessions sharing this connection makes the server close the
				// connection even when it is the only session the server ever sees (a reused
				// number, an even number, a key mismatch): in the multiplexed run the others
				// are cut with it. The statement's premise is interleaving, not one session
				// breaking the rules of the shared transport.
				mux.Probes["solo-stood-down:a-session-ends-the-connection-by-itself"]++
				continue
			}
			c.v("C09/missing-replies", "conn %d session %d: %d replies when multiplexed, %d when alone", conn[i], sess[i], n, len(want))
		}
	}
	return c.out
}

// sessionFullySent: every packet of the session was sent and delivered in the
// multiplexed run and the run was not cut by the step limit.
func (c *ctx) sessionFullySent(conn int, sess uint32) bool {
	if conn-1 >= len(c.p.Scen.Clients) {
		return false
	}
	sentOps := map[int]bool{}
	for _, e := range c.r.Events {
		if e.Kind == "cli-send" && e.Conn == conn {
			sentOps[int(e.B)] = true
		}
	}
	for i, o := range c.p.Scen.Clients[conn-1].Ops {
		if o.Kind == "send" && o.Pkt != nil && o.Pkt.Session == sess && !sentOps[i] {
			return false
		}
	}
	return c.allDelivered(conn)
}

// closesOnItsOwn: in this (solo) run the server closed connection 1 before the run was
// drained, i.e. on account of what the session itself sent.
func closesOnItsOwn(r *runner.Result) bool {
	for _, e := range r.Events {
		if e.Kind == "drain" {
			return false
		}
		if e.Kind == "close" && e.Conn == 1 {
			return true
		}
	}
	return false
}
