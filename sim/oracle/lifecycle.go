package oracle

import (
	"encoding/json"
	"sort"
	"strings"
)

// shutdown evaluates property C17 on the history: at the moment Serve returns the
// listener is closed, every accepted connection is closed, every handler has ended and
// nothing happens afterwards; Serve does return once nothing is parked; a finite read
// deadline precedes every read, is not extended inside a packet, and an expired
// deadline closes the connection.
func (c *ctx) shutdown() {
	evs := c.r.Events
	serveRet := -1
	for _, e := range evs {
		if e.Kind == "serve-return" {
			serveRet = e.Seq
		}
	}
	cancelled := false
	for _, e := range evs {
		if e.Kind == "cancel" || e.Kind == "close-listener" {
			cancelled = true
		}
	}
	fatalAccept := c.r.Faults["accept-fatal"] > 0
	if serveRet < 0 {
		if cancelled || fatalAccept {
			c.v("C17/serve-does-not-return", "context cancelled, no seam parked, clock advanced %d times past the armed deadlines, yet Serve has not returned", c.r.DrainAdvances)
		}
	} else {
		listenerClosed := false
		accepted := map[int]bool{}
		closed := map[int]bool{}
		openInv := map[int]int{}
		for _, e := range evs {
			if e.Seq > serveRet {
				switch e.Kind {
				case "invoke", "read-begin", "write", "close", "accept-begin", "get-begin":
					c.vs("C17/activity-after-return", e.Kind, "server activity (%s on conn %d) after Serve returned", e.Kind, e.Conn)
				}
				continue
			}
			switch e.Kind {
			case "listener-close":
				listenerClosed = true
			case "accept-end":
				if e.S == "conn" {
					accepted[e.Conn] = true
				}
			case "close":
				closed[e.Conn] = true
			case "invoke":
				openInv[e.Conn]++
			case "invoke-end":
				openInv[e.Conn]--
			}
		}
		if !listenerClosed {
			c.v("C17/listener-open-at-return", "Serve returned with the listener still open")
		}
		for id := range accepted {
			if !closed[id] {
				c.v("C17/connection-open-at-return", "Serve returned while accepted connection %d was still open", id)
			}
			if openInv[id] > 0 {
				c.v("C17/handler-running-at-return", "Serve returned while a handler on connection %d was still running", id)
			}
		}
	}

	// read deadlines, per connection
	type st struct {
		armed    bool
		deadline int64 // fake ns, -1 = none/zero
		base     int64 // deadline armed first since the last packet boundary
		haveBase bool
		closedAt int64
		budget   int64 // the read timeout the server grants a packet (learned from its first arming)
		since    int64 // when the wait for the current packet began (accept, or end of the previous packet's handling)
		stale    bool  // a packet was handled and no deadline has been armed since
	}
	conns := map[int]*st{}
	get := func(id int) *st {
		if conns[id] == nil {
			conns[id] = &st{deadline: -1, closedAt: -1}
		}
		return conns[id]
	}
	lastT := int64(0)
	for _, e := range evs {
		if e.T > lastT {
			lastT = e.T
		}
		if e.Conn == 0 {
			continue
		}
		s := get(e.Conn)
		switch e.Kind {
		case "set-read-deadline":
			s.armed = true
			s.deadline = e.A
			s.stale = false
			if s.budget == 0 && e.A > e.T {
				s.budget = e.A - e.T
				s.since = e.T
			}
			if e.A >= 0 && e.A <= e.T {
				c.v("C17/deadline-not-in-future", "conn %d: read deadline armed at t=%d for t=%d", e.Conn, e.T, e.A)
			}
			if !s.haveBase {
				s.base, s.haveBase = e.A, true
			} else if e.A > s.base && s.base >= 0 {
				c.v("C17/deadline-extended-inside-packet", "conn %d: read deadline moved from t=%d to t=%d although no complete packet arrived in between", e.Conn, s.base, e.A)
			}
		case "read-begin":
			if !s.armed || s.deadline < 0 {
				c.v("C17/read-without-deadline", "conn %d: Read called with no finite read deadline armed", e.Conn)
			} else if s.stale {
				c.v("C17/read-under-stale-deadline", "conn %d: after a packet was handled the connection was read again without arming a read deadline first: the wait for the next packet runs on what is left of the previous packet's time", e.Conn)
				s.stale = false
			}
		case "read-end":
			if strings.HasSuffix(e.S, "i/o timeout") && s.budget > 0 && e.T < s.since+s.budget {
				// the server grants every packet `budget` from the moment it starts waiting
				// for it; giving up earlier loses a packet that did not stall
				for _, id := range []string{"C05", "C17"} {
					c.v(id+"/premature-read-timeout", "conn %d: the read timed out at t=%d although the wait for this packet began at t=%d and the server grants %d per packet: bytes that arrive in time are lost depending on how they were coalesced with the previous packet", e.Conn, e.T, s.since, s.budget)
				}
			}
		case "invoke-end":
			s.haveBase = false
			s.since = e.T
			s.stale = true
		case "close", "close-begin":
			// with the close seam armed the call can take a while: the server decided to
			// close when it called Close
			if s.closedAt < 0 {
				s.closedAt = e.T
			}
		}
	}
	ids := make([]int, 0, len(conns))
	for id := range conns {
		ids = append(ids, id)
	}
	sort.Ints(ids)
	for _, id := range ids {
		s := conns[id]
		if s.haveBase && s.base >= 0 && lastT > s.base && (s.closedAt < 0 || s.closedAt > s.base) {
			c.v("C17/idle-connection-not-reaped", "conn %d: no complete packet before the read deadline t=%d, yet the connection was closed at t=%d (run lasted until t=%d)", id, s.base, s.closedAt, lastT)
		}
	}
}

// gauges evaluates property C20: the four in-flight gauges never drop below their value
// at rest, equal the model at every quiescent point, and return to rest at the end.
func (c *ctx) gauges() {
	var base, rest map[string]float64
	type cst struct {
		served  bool
		alive   bool
		open    map[uint32]bool
		inInv   bool
		curSess uint32
		nexted  bool
		initial bool
	}
	conns := map[int]*cst{}
	get := func(id int) *cst {
		if conns[id] == nil {
			conns[id] = &cst{open: map[uint32]bool{}}
		}
		return conns[id]
	}
	settled := true // model is exact only when every goroutine's bookkeeping is at rest
	for _, e := range c.r.Events {
		switch e.Kind {
		case "accept-end":
			if e.S == "conn" {
				get(e.Conn).alive = true
			}
		case "get-end":
			if e.A == 1 {
				get(e.Conn).served = true
			}
		case "invoke":
			s := get(e.Conn)
			inv := parseInvoke(e)
			s.inInv, s.curSess, s.nexted = true, inv.H.Session, false
			s.initial = !s.open[inv.H.Session]
			s.open[inv.H.Session] = true
		case "next":
			get(e.Conn).nexted = true
		case "invoke-end":
			s := get(e.Conn)
			s.inInv = false
			if !s.nexted && !c.probeRegistered(e.Conn, int(e.A)) {
				delete(s.open, s.curSess)
			}
		case "close":
			s := get(e.Conn)
			s.served, s.alive = false, false
			s.open = map[uint32]bool{}
		case "gauge":
			parts := strings.SplitN(e.S, "|", 2)
			var g map[string]float64
			if len(parts) != 2 || json.Unmarshal([]byte(parts[1]), &g) != nil {
				continue
			}
			if parts[0] == "baseline" {
				base = g
				rest = g
				continue
			}
			if base == nil {
				continue
			}
			if parts[0] == "sibling" {
				// another Server of the process now holds idle connections: the burst on the
				// main server is measured from here; rest (nothing at all open) stays as it was
				base = g
				continue
			}
			if parts[0] == "final" {
				base = rest
			}
			for _, name := range []string{"serve_accepted", "handle_handlers", "sessions_active", "waitgroup_handle_routines_active"} {
				d := g[name] - base[name]
				if d < 0 {
					c.vs("C20/gauge-below-rest", name, "gauge %s is %v below its value at rest (step %d)", name, -d, e.Step)
				}
			}
			if parts[0] == "final" && c.r.ServeReturned {
				for _, name := range []string{"serve_accepted", "handle_handlers", "sessions_active", "waitgroup_handle_routines_active"} {
					if d := g[name] - base[name]; d != 0 {
						c.vs("C20/gauge-not-at-rest", name, "after every connection closed and Serve returned, gauge %s is off its value at rest by %+v", name, d)
					}
				}
			}
			if parts[0] == "step" && settled && c.p.Property == "C20" {
				served, alive, inv, sess := 0, 0, 0, 0
				for _, s := range conns {
					if s.served {
						served++
					}
					if s.alive {
						alive++
					}
					if s.inInv {
						inv++
					}
					sess += len(s.open)
				}
				chk := func(name string, want int) {
					if d := g[name] - base[name]; int(d) != want {
						c.vs("C20/gauge-differs-from-model", name, "step %d: gauge %s shows %+v in flight, history says %d", e.Step, name, d, want)
					}
				}
				chk("handle_handlers", inv)
				chk("sessions_active", sess)
				chk("serve_accepted", served)
				chk("waitgroup_handle_routines_active", alive)
			}
		}
	}
}

// probeRegistered: did the probe handler's script register a continuation on this
// invocation (probe handlers do not emit "next" events).
func (c *ctx) probeRegistered(conn, idx int) bool {
	if c.p.Scen.Server != "probe" || conn-1 >= len(c.p.Scen.Clients) || conn < 1 {
		return false
	}
	h := c.p.Scen.Clients[conn-1].Handler
	if idx < len(h) {
		return h[idx].Next > 0
	}
	if n := len(h); n > 0 && h[n-1].Next < 0 {
		return false
	}
	return false
}
