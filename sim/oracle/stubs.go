package oracle

func (c *ctx) loaderHistory() {}

func (c *ctx) realClientVsModel()   {}
func (c *ctx) realClientConn(i int) {}
