package oracle

func (c *ctx) loaderHistory() {}
