// Package worker is the simulation worker: a test binary (testing/synctest needs a
// *testing.T) that executes the jobs the vcheck driver hands it.
package worker

import (
	"bufio"
	"encoding/json"
	"fmt"
	"os"
	"runtime"
	"strings"
	"testing"
	"time"

	"tqsim/oracle"
	"tqsim/plan"
	"tqsim/runner"
)

// Job tells a worker what to do. Either Plan (replay / shrink candidate) or a range of
// run indices to generate from the seed.
type Job struct {
	Property string `json:"property"`
	Seed     uint64 `json:"seed"`
	Tier     string `json:"tier"`
	From     int    `json:"from"`
	To       int    `json:"to"`
	Stride   int    `json:"stride"`
	PlanFile string `json:"plan_file,omitempty"`
	Out      string `json:"out"`     // JSONL results
	Current  string `json:"current"` // file holding the plan being executed (crash attribution)
	Deadline int64  `json:"deadline_unix,omitempty"`
	Build    string `json:"build,omitempty"` // execute only plans for this build variant
	DumpHist bool   `json:"dump_hist,omitempty"`
}

// RunRecord is one line of the results file.
type RunRecord struct {
	Run        int                `json:"run"`
	Family     string             `json:"family"`
	Violations []oracle.Violation `json:"violations,omitempty"`
	Harness    string             `json:"harness,omitempty"`
	Steps      int                `json:"steps"`
	SimNs      int64              `json:"sim_ns"`
	Events     int                `json:"events"`
	Signature  string             `json:"sig"`
	RawHash    string             `json:"raw"`
	CanonHash  string             `json:"canon"`
	Faults     map[string]int     `json:"faults,omitempty"`
	Probes     map[string]int     `json:"probes,omitempty"`
	Nontrivial bool               `json:"nontrivial"`
	WallUs     int64              `json:"wall_us"`
	Sample     json.RawMessage    `json:"sample,omitempty"`
	Plan       json.RawMessage    `json:"plan,omitempty"` // the executed plan, attached when the run violated something
}

func TestWorker(t *testing.T) {
	jf := os.Getenv("TQSIM_JOB")
	if jf == "" {
		t.Skip("no job")
	}
	raw, err := os.ReadFile(jf)
	if err != nil {
		t.Fatalf("job: %v", err)
	}
	var job Job
	if err := json.Unmarshal(raw, &job); err != nil {
		t.Fatalf("job: %v", err)
	}
	out, err := os.Create(job.Out)
	if err != nil {
		t.Fatalf("out: %v", err)
	}
	defer out.Close()
	bw := bufio.NewWriter(out)
	defer bw.Flush()
	emit := func(rec RunRecord) {
		b, _ := json.Marshal(rec)
		bw.Write(b)
		bw.WriteByte('\n')
		bw.Flush()
	}
	exec := func(p *plan.Plan, sample bool) {
		if job.Current != "" {
			b, _ := json.Marshal(p)
			os.WriteFile(job.Current, b, 0o644)
		}
		t0 := time.Now()
		hang := time.AfterFunc(hangAfter(job.PlanFile != ""), reportDeadlock)
		defer hang.Stop()
		res := runner.Run(t, p)
		vs := oracle.Check(p, res)
		if p.Property == "C09" && p.Family != "solo" && p.Scen.Server == "ref" {
			sp, conn, sess := plan.SoloPlans(p)
			var solos []*runner.Result
			for _, q := range sp {
				solos = append(solos, runner.Run(t, q))
			}
			vs = append(vs, oracle.CompareSolo(p, res, solos, conn, sess)...)
		}
		var mine []oracle.Violation
		for _, v := range vs {
			if v.Property == p.Property {
				mine = append(mine, v)
			}
		}
		nf := 0
		for _, n := range res.Faults {
			nf += n
		}
		rec := RunRecord{Run: p.Run, Family: p.Family, Violations: mine, Harness: res.Harness, Steps: res.Steps, SimNs: res.SimNs,
			Events: len(res.Events), Signature: res.Signature, RawHash: res.RawHash, CanonHash: res.CanonHash, Faults: res.Faults, Probes: res.Probes,
			Nontrivial: len(p.Scen.Clients) >= 2 || nf >= 1 || res.Steps >= 8, WallUs: time.Since(t0).Microseconds()}
		if sample {
			rec.Sample, _ = json.Marshal(summarize(p))
		}
		if len(mine) > 0 {
			rec.Plan, _ = json.Marshal(p)
		}
		if job.DumpHist {
			for _, e := range res.Events {
				if os.Getenv("TQSIM_FULL") != "" {
					fmt.Fprintf(os.Stderr, "%5d s%-4d t=%-12d %-9s %-18s c%d a=%d b=%d %q %x\n", e.Seq, e.Step, e.T, e.Actor, e.Kind, e.Conn, e.A, e.B, e.S, e.Bytes)
					continue
				}
				fmt.Fprintf(os.Stderr, "%5d s%-4d t=%-12d %-9s %-18s c%d a=%d b=%d %.120s %.40x\n", e.Seq, e.Step, e.T, e.Actor, e.Kind, e.Conn, e.A, e.B, e.S, e.Bytes)
			}
			for _, v := range vs {
				fmt.Fprintf(os.Stderr, "VIOL %s: %s\n", v.Class, v.Detail)
			}
		}
		emit(rec)
	}
	if job.PlanFile != "" {
		b, err := os.ReadFile(job.PlanFile)
		if err != nil {
			t.Fatalf("plan: %v", err)
		}
		var p plan.Plan
		if err := json.Unmarshal(b, &p); err != nil {
			t.Fatalf("plan: %v", err)
		}
		exec(&p, false)
		if job.Current != "" {
			os.Remove(job.Current)
		}
		return
	}
	stride := job.Stride
	if stride <= 0 {
		stride = 1
	}
	executed := 0
	for i := job.From; i < job.To; i += stride {
		if job.Deadline > 0 && time.Now().Unix() > job.Deadline {
			break
		}
		p := plan.Generate(job.Property, job.Seed, i, job.Tier)
		if p == nil {
			t.Fatalf("no generator for %s", job.Property)
		}
		if job.Build != "" && buildOf(p) != job.Build {
			continue
		}
		exec(p, i < job.From+3*stride)
		// every bubble leaves blocked goroutines behind (the loader's update loop never
		// exits) and with them whatever they reference: recycle the process before it grows
		// large; the driver starts a fresh worker at the next run index
		executed++
		if executed%8 == 0 {
			var ms runtime.MemStats
			runtime.ReadMemStats(&ms)
			if ms.HeapInuse > 1200<<20 {
				break
			}
		}
	}
	if job.Current != "" {
		os.Remove(job.Current)
	}
}

// hangAfter is the real time one execution may take before the worker looks for a
// deadlock in the code under test (an execution normally takes milliseconds).
func hangAfter(replay bool) time.Duration {
	if replay {
		return 20 * time.Second
	}
	return 40 * time.Second
}

// lockWaiters returns, by goroutine id, the first tacquito source position of every
// goroutine that waits for a sync.Mutex / sync.RWMutex directly from tacquito code.
func lockWaiters() map[string]string {
	buf := make([]byte, 16<<20)
	buf = buf[:runtime.Stack(buf, true)]
	out := map[string]string{}
	for _, blk := range strings.Split(string(buf), "\n\n") {
		lines := strings.Split(blk, "\n")
		if len(lines) < 3 || !strings.HasPrefix(lines[0], "goroutine ") {
			continue
		}
		hd := lines[0]
		if !strings.Contains(hd, "sync.Mutex.Lock") && !strings.Contains(hd, "sync.RWMutex.") && !strings.Contains(hd, "semacquire") {
			continue
		}
		// the first frame outside the Go runtime and standard library decides whose wait it is
		for _, l := range lines[1:] {
			l = strings.TrimSpace(l)
			if !strings.HasPrefix(l, "/") || strings.Contains(l, "/go1.26.8/") || (runtime.GOROOT() != "" && strings.HasPrefix(l, runtime.GOROOT()+"/")) {
				continue
			}
			if k := strings.LastIndex(l, "/repo/"); k >= 0 {
				site := l[k+len("/repo/"):]
				if sp := strings.IndexAny(site, " +"); sp > 0 {
					site = site[:sp]
				}
				out[strings.Fields(hd)[1]] = site + "\n" + blk
			}
			break
		}
	}
	return out
}

// reportDeadlock runs when an execution has made no progress for far longer than any
// execution takes. If a goroutine of the code under test has been waiting for a lock
// all along while nothing else runs, the code under test is deadlocked: the worker says
// so in the form of a fatal error (the driver attributes it to the plan being executed,
// minimises and replays it like any other death). Anything else is left to the driver's
// watchdog, which reports harness trouble.
func reportDeadlock() {
	a := lockWaiters()
	if len(a) == 0 {
		return
	}
	time.Sleep(3 * time.Second)
	b := lockWaiters()
	for g, sa := range a {
		if sb, ok := b[g]; ok && strings.SplitN(sa, "\n", 2)[0] == strings.SplitN(sb, "\n", 2)[0] {
			parts := strings.SplitN(sb, "\n", 2)
			fmt.Fprintf(os.Stderr, "fatal error: code under test is deadlocked: a goroutine has been waiting for a lock while every other goroutine is idle\n\tat /repo/%s +0x0\n\n%s\n", parts[0], parts[1])
			os.Exit(3)
		}
	}
}

func buildOf(p *plan.Plan) string {
	if p.Build == "" {
		return "plain"
	}
	return p.Build
}

// summarize renders a plan compactly for the evidence file's samples.
func summarize(p *plan.Plan) map[string]interface{} {
	var clients []map[string]interface{}
	for _, c := range p.Scen.Clients {
		var ops []string
		for _, o := range c.Ops {
			switch o.Kind {
			case "send":
				s := fmt.Sprintf("send{type=%d seq=%d sess=%d flags=%#x body=%s/%dB", o.Pkt.Type, o.Pkt.Seq, o.Pkt.Session, o.Pkt.Flags, o.Pkt.Body.Kind, len(o.Pkt.Body.Encode()))
				if o.Pkt.Trunc != nil {
					s += fmt.Sprintf(" trunc=%d", *o.Pkt.Trunc)
				}
				if o.Pkt.LenOverride != nil {
					s += fmt.Sprintf(" announce=%d", *o.Pkt.LenOverride)
				}
				ops = append(ops, s+"}")
			case "raw":
				ops = append(ops, fmt.Sprintf("raw{%dB}", len(o.Raw)))
			default:
				ops = append(ops, o.Kind)
			}
			if len(ops) > 12 {
				ops = append(ops, "…")
				break
			}
		}
		clients = append(clients, map[string]interface{}{"addr": c.Addr, "ops": ops, "handler_steps": len(c.Handler), "real": c.Real})
	}
	return map[string]interface{}{"run": p.Run, "family": p.Family, "mode": p.Mode, "server": p.Scen.Server, "clients": clients,
		"ctl": p.Scen.Ctl, "park": p.Park, "tape_len": len(p.Tape), "docs": len(p.Scen.Docs)}
}
