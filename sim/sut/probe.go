package sut

import (
	"bytes"
	"context"
	"fmt"
	"net"
	"sync"

	tq "github.com/facebookincubator/tacquito"

	"tqsim/plan"
	"tqsim/world"
)

// Invocation is what a recording handler saw: recorded in the history as kind "invoke".
type Invocation struct {
	Conn    int            `json:"conn"`
	Index   int            `json:"index"`   // invocation index on this connection
	Handler int            `json:"handler"` // 0 = initial handler, k = continuation k
	H       interface{}    `json:"h"`
	Decoded *plan.BodySpec `json:"decoded,omitempty"`
	DecErr  string         `json:"dec_err,omitempty"`
}

// ProbeProvider is a scripted tacquito.SecretProvider: it binds each simulated
// connection (by remote address string) to a key and a scripted probe handler.
type ProbeProvider struct {
	ring, ringOrig []byte
	w              *world.World
	mu             sync.Mutex
	byKey          map[string]*probeConn
}

type probeConn struct {
	w     *world.World
	conn  int
	key   []byte
	spec  *plan.ClientSpec
	mu    sync.Mutex
	count int
	kept  []keptReq
	recv  Receivers
}

// keptReq is a request body a handler of this connection was given earlier and still
// holds (multi-step handlers keep the first request of an exchange).
type keptReq struct {
	idx      int
	ref, was []byte
}

// recheck reports every retained request body that no longer reads as it did when
// the handler received it.
func (pc *probeConn) recheck(now int) {
	for i := range pc.kept {
		k := &pc.kept[i]
		if k.ref != nil && !bytes.Equal(k.ref, k.was) {
			pc.w.Rec(world.Ev{Actor: "conn", Kind: "retained-body-changed", Conn: pc.conn, A: int64(k.idx), B: int64(now)})
			k.ref = nil
		}
	}
}

// NewProbeProvider builds the provider for the plan's clients; connection ids are
// assigned in client order (client i gets connection i+1).
func NewProbeProvider(w *world.World, clients []plan.ClientSpec) *ProbeProvider {
	p := &ProbeProvider{w: w, byKey: map[string]*probeConn{}}
	// Like a key ring parsed from one blob, every connection's key is a sub-slice of one
	// shared buffer: the slices handed to the server have spare capacity that overlaps
	// the next key. Code that appends to a secret it was given corrupts its neighbour.
	var ring []byte
	offs := make([][2]int, len(clients))
	for i := range clients {
		offs[i] = [2]int{len(ring), len(ring) + len(clients[i].SrvKey)}
		ring = append(ring, clients[i].SrvKey...)
	}
	ring = append(ring, 0, 0, 0, 0)
	p.ring = ring
	p.ringOrig = append([]byte(nil), ring...)
	for i := range clients {
		c := &clients[i]
		p.byKey[AddrOf(c, i).String()] = &probeConn{w: w, conn: i + 1, spec: c, key: ring[offs[i][0]:offs[i][1]]}
	}
	return p
}

// KeysIntact reports whether the key material handed to the server is still what the
// provider holds: the server must treat secrets as read-only.
func (p *ProbeProvider) KeysIntact() bool { return bytes.Equal(p.ring, p.ringOrig) }

// AddrOf returns the net.Addr a client presents. Addresses are made unique per client
// by the generator; a missing address gets a synthetic one.
func AddrOf(c *plan.ClientSpec, i int) net.Addr {
	if c.NonTCP {
		return world.NonTCPAddr{S: fmt.Sprintf("nontcp-%d", i)}
	}
	if c.Addr == "" {
		return &net.TCPAddr{IP: net.IPv4(10, 0, byte(i>>8), byte(i)), Port: 40000 + i}
	}
	host, port, err := net.SplitHostPort(c.Addr)
	if err != nil {
		return world.NonTCPAddr{S: c.Addr}
	}
	var pn int
	fmt.Sscanf(port, "%d", &pn)
	ip := net.ParseIP(host)
	return &net.TCPAddr{IP: ip, Port: pn}
}

// Get implements tacquito.SecretProvider.
func (p *ProbeProvider) Get(ctx context.Context, remote net.Addr) ([]byte, tq.Handler, error) {
	p.w.Park("provider")
	p.mu.Lock()
	pc := p.byKey[remote.String()]
	p.mu.Unlock()
	if pc == nil || pc.spec.Refuse {
		id := 0
		if pc != nil {
			id = pc.conn
		}
		p.w.Rec(world.Ev{Actor: "conn", Kind: "get-end", Conn: id, A: 0, S: "refused"})
		return nil, nil, fmt.Errorf("no secret for %v", remote)
	}
	key := pc.key
	if key == nil {
		key = []byte{}
	}
	p.w.Rec(world.Ev{Actor: "conn", Kind: "get-end", Conn: pc.conn, A: 1, Bytes: append([]byte(nil), key...)})
	return key, &probeHandler{pc: pc, id: 0}, nil
}

type probeHandler struct {
	pc *probeConn
	id int
}

// Handle records the invocation and behaves as the plan's handler script says.
func (h *probeHandler) Handle(resp tq.Response, req tq.Request) {
	pc := h.pc
	pc.mu.Lock()
	idx := pc.count
	pc.count++
	pc.mu.Unlock()
	var st plan.HStep
	if idx < len(pc.spec.Handler) {
		st = pc.spec.Handler[idx]
	} else if n := len(pc.spec.Handler); n > 0 && pc.spec.Handler[n-1].Next < 0 {
		// a trailing step with Next<0 is the default for all further invocations
		st = pc.spec.Handler[n-1]
	}
	inv := Invocation{Conn: pc.conn, Index: idx, Handler: h.id, H: LibHeader(req.Header)}
	if st.Decode != "" {
		if v := NewLib(st.Decode); v != nil {
			if err := tq.Unmarshal(req.Body, v); err != nil {
				inv.DecErr = err.Error()
			} else {
				d := FromLib(v)
				inv.Decoded = &d
				if why := pc.recv.Body(st.Decode, req.Body, d); why != "" {
					pc.w.Rec(world.Ev{Actor: "conn", Kind: "receiver-reuse-differs", Conn: pc.conn, A: int64(idx), S: why})
				}
			}
		}
	}
	if why := pc.recv.Packet(req.Header, req.Body); why != "" {
		pc.w.Rec(world.Ev{Actor: "conn", Kind: "receiver-reuse-differs", Conn: pc.conn, A: int64(idx), S: why})
	}
	if why := pc.recv.Header(req.Header); why != "" {
		pc.w.Rec(world.Ev{Actor: "conn", Kind: "receiver-reuse-differs", Conn: pc.conn, A: int64(idx), S: why})
	}
	entryBody := append([]byte(nil), req.Body...)
	pc.mu.Lock()
	pc.recheck(idx)
	pc.kept = append(pc.kept, keptReq{idx: idx, ref: req.Body, was: entryBody})
	pc.mu.Unlock()
	pc.w.Rec(world.Ev{Actor: "conn", Kind: "invoke", Conn: pc.conn, A: int64(idx), B: int64(h.id), S: J(inv), Bytes: entryBody})
	defer func() {
		if r := recover(); r != nil {
			pc.w.Rec(world.Ev{Actor: "conn", Kind: "panic", Conn: pc.conn, S: fmt.Sprint(r)})
		}
		pc.w.Rec(world.Ev{Actor: "conn", Kind: "invoke-end", Conn: pc.conn, A: int64(idx)})
	}()
	if st.Park {
		pc.w.Park("handler")
	}
	// the request the handler holds must still be the request it was given
	if !bytes.Equal(req.Body, entryBody) {
		pc.w.Rec(world.Ev{Actor: "conn", Kind: "body-mutated", Conn: pc.conn, A: int64(idx)})
	}
	if st.Next > 0 {
		resp.Next(&probeHandler{pc: pc, id: st.Next})
	}
	replies := []plan.BodySpec{}
	if st.Reply != nil {
		replies = append(replies, *st.Reply)
	}
	replies = append(replies, st.Extra...)
	for _, r := range replies {
		v, err := ToLib(r)
		if err != nil {
			pc.w.Rec(world.Ev{Actor: "conn", Kind: "reply-result", Conn: pc.conn, A: -1, S: "harness: " + err.Error()})
			continue
		}
		var n int
		if st.ViaWrite {
			// total control over the packet: mirrored header built by the handler itself,
			// with a deliberately wrong length field
			var body []byte
			body, err = v.MarshalBinary()
			if err == nil {
				h := tq.NewHeader(tq.SetHeaderVersion(req.Header.Version), tq.SetHeaderType(req.Header.Type), tq.SetHeaderSeqNo(int(req.Header.SeqNo)+1),
					tq.SetHeaderFlag(req.Header.Flags), tq.SetHeaderSessionID(req.Header.SessionID))
				pk := tq.NewPacket(tq.SetPacketHeader(h), tq.SetPacketBody(body))
				pk.Header.Length = st.WrongLen
				n, err = resp.Write(pk)
			}
		} else {
			n, err = resp.Reply(v)
		}
		s := ""
		if err != nil {
			s = err.Error()
		}
		pc.w.Rec(world.Ev{Actor: "conn", Kind: "reply-result", Conn: pc.conn, A: int64(n), S: s})
	}
}
