package sut

import (
	"bytes"
	"fmt"

	tq "github.com/facebookincubator/tacquito"

	"tqsim/model"
	"tqsim/plan"
)

// TapFinding is one deviation seen by the tap when it hands observed wire bytes to the
// library's public decoders.
type TapFinding struct {
	Class  string
	Sub    string
	Detail string
}

var tapKinds = []string{model.KAuthenStart, model.KAuthenReply, model.KAuthenCont, model.KAuthorReq, model.KAuthorReply, model.KAcctReq, model.KAcctReply}

// poisoned returns a copy of b whose spare capacity is filled with a poison byte, so a
// decoder that reads past len(b) exposes it.
func poisoned(b []byte) []byte {
	buf := make([]byte, len(b)+256)
	for i := range buf {
		buf[i] = 0xA5
	}
	copy(buf, b)
	return buf[:len(b)]
}

func fixedLen(kind string) (fixed int, argCntAt int) {
	switch kind {
	case model.KAuthenStart:
		return 8, -1
	case model.KAuthenReply:
		return 6, -1
	case model.KAuthenCont:
		return 5, -1
	case model.KAuthorReq:
		return 8, 7
	case model.KAuthorReply:
		return 6, 1
	case model.KAcctReq:
		return 9, 8
	case model.KAcctReply:
		return 5, -1
	}
	return 0, -1
}

// TapDecode hands b to every public decoder (header, packet, seven bodies,
// Request.Fields) the way a passive consumer of mirrored traffic would.
func TapDecode(b []byte) (out []TapFinding) {
	add := func(class, sub, format string, args ...interface{}) {
		out = append(out, TapFinding{class, sub, fmt.Sprintf(format, args...)})
	}
	guard := func(what string, f func()) {
		defer func() {
			if r := recover(); r != nil {
				add("C04/decoder-panic", what, "%s panics on %d bytes %s: %v", what, len(b), short(b), r)
			}
		}()
		f()
	}
	guard("Header.UnmarshalBinary", func() {
		var h tq.Header
		if err := tq.Unmarshal(poisoned(b), &h); err == nil {
			if h.Validate() != nil {
				add("C04/invalid-value-accepted", "header", "header decoded without error from %s but fails its own validation", short(b))
			}
		}
	})
	guard("Packet.UnmarshalBinary", func() {
		var p tq.Packet
		if err := tq.Unmarshal(poisoned(b), &p); err == nil {
			if len(b) < 12 || len(p.Body) > len(b)-12 || !bytes.Equal(p.Body, b[12:12+len(p.Body)]) {
				add("C04/reads-beyond-input", "packet", "packet decoded from %d bytes has a %d byte body not contained in the input: %s", len(b), len(p.Body), short(p.Body))
			}
		}
	})
	for _, kind := range tapKinds {
		kind := kind
		guard(kind, func() {
			v := NewLib(kind)
			in := poisoned(b)
			if err := tq.Unmarshal(in, v); err != nil {
				return
			}
			d := FromLib(v)
			// every variable-length field consists of bytes inside the input: the
			// fields are laid out consecutively after the fixed part and the
			// argument length octets
			fixed, argAt := fixedLen(kind)
			off := fixed
			if argAt >= 0 && argAt < len(b) {
				off += int(b[argAt])
			}
			var all []byte
			for _, s := range d.S {
				all = append(all, s...)
			}
			for _, a := range d.Args {
				all = append(all, a...)
			}
			if off > len(b) {
				off = len(b)
			}
			if len(all) > len(b)-off || !bytes.Equal(all, b[off:off+len(all)]) {
				add("C04/reads-beyond-input", kind, "%s decoded from %d bytes exposes %d field bytes not contained in the input %s", kind, len(b), len(all), short(b))
				return
			}
			if bytes.Contains(all, []byte{0xA5, 0xA5, 0xA5, 0xA5}) && !bytes.Contains(b, []byte{0xA5, 0xA5, 0xA5, 0xA5}) {
				add("C04/reads-beyond-input", kind, "%s decoded from %d bytes contains bytes from beyond the slice", kind, len(b))
				return
			}
			if !d.Representable() {
				add("C04/invalid-value-accepted", kind, "%s decoded without error from %s but the value breaks the type's validation rules or wire widths", kind, short(b))
				return
			}
			// decode-first round trip (C02): decode -> encode -> decode gives the same value
			enc, err := v.MarshalBinary()
			if err != nil {
				add("C02/decoded-value-not-encodable", kind, "%s decoded without error from %s but refuses to encode: %v", kind, short(b), err)
				return
			}
			v2 := NewLib(kind)
			if err := tq.Unmarshal(enc, v2); err != nil {
				add("C02/reencoded-not-decodable", kind, "%s: re-encoded bytes do not decode: %v", kind, err)
				return
			}
			if d2 := FromLib(v2); !d2.Same(d) {
				add("C02/roundtrip-differs", kind, "%s: decode(encode(decode(x))) differs from decode(x) for x=%s", kind, short(b))
			}
		})
	}
	guard("Request.Fields", func() {
		if len(b) >= 12 {
			var h tq.Header
			if tq.Unmarshal(b[:12], &h) == nil {
				_ = tq.Request{Header: h, Body: poisoned(b[12:])}.Fields()
			}
		}
	})
	return out
}

func short(b []byte) string {
	if len(b) > 40 {
		return fmt.Sprintf("%x…(%d)", b[:40], len(b))
	}
	return fmt.Sprintf("%x", b)
}

// EncodeLib encodes a neutral value with the library encoder.
func EncodeLib(b plan.BodySpec) ([]byte, error) {
	v, err := ToLib(b)
	if err != nil {
		return nil, err
	}
	return v.MarshalBinary()
}
