package sut

import (
	tq "github.com/facebookincubator/tacquito"
	"strconv"

	"tqsim/plan"
)

// Receivers are decode targets a caller keeps and reuses (one per codec type), as code
// that avoids an allocation per packet does.  Decoding into a used receiver must give
// what decoding into a fresh one gives.
type Receivers struct {
	body map[string]tq.EncoderDecoder
	hdr  tq.Header
	pkt  tq.Packet
}

// Body decodes raw into the kept receiver of the kind and compares with the value a
// fresh receiver produced; it returns a description of the difference, or "".
func (r *Receivers) Body(kind string, raw []byte, fresh plan.BodySpec) string {
	if r.body == nil {
		r.body = map[string]tq.EncoderDecoder{}
	}
	v := r.body[kind]
	if v == nil {
		v = NewLib(kind)
		if v == nil {
			return ""
		}
		r.body[kind] = v
	}
	if err := tq.Unmarshal(raw, v); err != nil {
		delete(r.body, kind)
		return kind + ": decoding into a used receiver failed (" + err.Error() + ") where a fresh one succeeded"
	}
	if got := J(FromLib(v)); got != J(fresh) {
		delete(r.body, kind)
		return kind + ": used receiver holds " + clip(got) + ", fresh receiver " + clip(J(fresh))
	}
	return ""
}

// Header re-encodes h and decodes it into the kept header receiver and into a fresh one.
func (r *Receivers) Header(h tq.Header) string {
	raw, err := h.MarshalBinary()
	if err != nil {
		return ""
	}
	var fresh tq.Header
	if err := fresh.UnmarshalBinary(raw); err != nil {
		return ""
	}
	if err := r.hdr.UnmarshalBinary(raw); err != nil {
		r.hdr = tq.Header{}
		return "header: decoding into a used receiver failed (" + err.Error() + ") where a fresh one succeeded"
	}
	if r.hdr != fresh {
		got := J(LibHeader(r.hdr))
		r.hdr = tq.Header{}
		return "header: used receiver holds " + got + ", fresh receiver " + J(LibHeader(fresh))
	}
	return ""
}

// Packet decodes the packet (header h, body) into the kept packet receiver, then a
// header-only packet (same header, length 0), and compares the second result with what a
// fresh receiver gives for those 12 bytes.
func (r *Receivers) Packet(h tq.Header, body []byte) string {
	h.Length = uint32(len(body))
	hb, err := h.MarshalBinary()
	if err != nil || len(body) == 0 {
		return ""
	}
	if err := r.pkt.UnmarshalBinary(append(append([]byte(nil), hb...), body...)); err != nil {
		r.pkt = tq.Packet{}
		return ""
	}
	h.Length = 0
	h0, _ := h.MarshalBinary()
	var fresh tq.Packet
	if err := fresh.UnmarshalBinary(h0); err != nil {
		return ""
	}
	if err := r.pkt.UnmarshalBinary(h0); err != nil {
		r.pkt = tq.Packet{}
		return "packet: decoding 12 header-only bytes into a used receiver failed (" + err.Error() + ") where a fresh one succeeded"
	}
	if len(r.pkt.Body) != len(fresh.Body) {
		n := len(r.pkt.Body)
		r.pkt = tq.Packet{}
		return "packet: a 12-byte header-only input decoded into a used receiver yields a body of " + strconv.Itoa(n) + " bytes that are not in the input"
	}
	return ""
}

func clip(s string) string {
	if len(s) > 160 {
		return s[:160] + "..."
	}
	return s
}
