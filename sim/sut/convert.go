// Package sut wires the real tacquito code (library, reference server, loaders) to the
// simulated world.
package sut

import (
	"context"
	"encoding/json"
	"fmt"

	tq "github.com/facebookincubator/tacquito"

	"tqsim/model"
	"tqsim/plan"
	"tqsim/world"
)

// Logger adapts world.Logger to the handlers' loggerProvider (adds the typed Set).
type Logger struct {
	*world.Logger
}

type retainKey string

// NewLogger returns the adapter; retained fields are stored in the context under the
// tacquito context key, as the reference logger's (commented-out) implementation would.
func NewLogger(w *world.World) *Logger {
	l := &Logger{Logger: w.Log}
	w.Log.Retain = func(ctx context.Context, key, val string) context.Context {
		return context.WithValue(ctx, tq.ContextKey(key), val)
	}
	return l
}

// Set implements the handlers' loggerProvider.
func (l *Logger) Set(ctx context.Context, fields map[string]string, keys ...tq.ContextKey) context.Context {
	ks := make([]string, len(keys))
	for i, k := range keys {
		ks[i] = string(k)
	}
	return l.SetFields(ctx, fields, ks)
}

func nth(n []uint8, i int) uint8 {
	if i < len(n) {
		return n[i]
	}
	return 0
}
func sth(s [][]byte, i int) string {
	if i < len(s) {
		return string(s[i])
	}
	return ""
}
func toArgs(a [][]byte) tq.Args {
	out := make(tq.Args, 0, len(a))
	for _, x := range a {
		out = append(out, tq.Arg(x))
	}
	return out
}
func fromArgs(a tq.Args) [][]byte {
	out := make([][]byte, 0, len(a))
	for _, x := range a {
		out = append(out, []byte(x))
	}
	return out
}

// ToLib converts a neutral body value into the library's type.
func ToLib(b plan.BodySpec) (tq.EncoderDecoder, error) {
	b = b.Materialize()
	switch b.Kind {
	case model.KAuthenStart:
		return &tq.AuthenStart{Action: tq.AuthenAction(nth(b.N, 0)), PrivLvl: tq.PrivLvl(nth(b.N, 1)), Type: tq.AuthenType(nth(b.N, 2)), Service: tq.AuthenService(nth(b.N, 3)),
			User: tq.AuthenUser(sth(b.S, 0)), Port: tq.AuthenPort(sth(b.S, 1)), RemAddr: tq.AuthenRemAddr(sth(b.S, 2)), Data: tq.AuthenData(sth(b.S, 3))}, nil
	case model.KAuthenReply:
		return &tq.AuthenReply{Status: tq.AuthenStatus(nth(b.N, 0)), Flags: tq.AuthenReplyFlag(nth(b.N, 1)), ServerMsg: tq.AuthenServerMsg(sth(b.S, 0)), Data: tq.AuthenData(sth(b.S, 1))}, nil
	case model.KAuthenCont:
		return &tq.AuthenContinue{Flags: tq.AuthenContinueFlag(nth(b.N, 0)), UserMessage: tq.AuthenUserMessage(sth(b.S, 0)), Data: tq.AuthenData(sth(b.S, 1))}, nil
	case model.KAuthorReq:
		return &tq.AuthorRequest{Method: tq.AuthenMethod(nth(b.N, 0)), PrivLvl: tq.PrivLvl(nth(b.N, 1)), Type: tq.AuthenType(nth(b.N, 2)), Service: tq.AuthenService(nth(b.N, 3)),
			User: tq.AuthenUser(sth(b.S, 0)), Port: tq.AuthenPort(sth(b.S, 1)), RemAddr: tq.AuthenRemAddr(sth(b.S, 2)), Args: toArgs(b.Args)}, nil
	case model.KAuthorReply:
		return &tq.AuthorReply{Status: tq.AuthorStatus(nth(b.N, 0)), ServerMsg: tq.AuthorServerMsg(sth(b.S, 0)), Data: tq.AuthorData(sth(b.S, 1)), Args: toArgs(b.Args)}, nil
	case model.KAcctReq:
		return &tq.AcctRequest{Flags: tq.AcctRequestFlag(nth(b.N, 0)), Method: tq.AuthenMethod(nth(b.N, 1)), PrivLvl: tq.PrivLvl(nth(b.N, 2)), Type: tq.AuthenType(nth(b.N, 3)), Service: tq.AuthenService(nth(b.N, 4)),
			User: tq.AuthenUser(sth(b.S, 0)), Port: tq.AuthenPort(sth(b.S, 1)), RemAddr: tq.AuthenRemAddr(sth(b.S, 2)), Args: toArgs(b.Args)}, nil
	case model.KAcctReply:
		return &tq.AcctReply{Status: tq.AcctReplyStatus(nth(b.N, 0)), ServerMsg: tq.AcctServerMsg(sth(b.S, 0)), Data: tq.AcctData(sth(b.S, 1))}, nil
	}
	return nil, fmt.Errorf("no library type for %q", b.Kind)
}

// NewLib returns an empty library value of a kind (for decoding).
func NewLib(kind string) tq.EncoderDecoder {
	switch kind {
	case model.KAuthenStart:
		return &tq.AuthenStart{}
	case model.KAuthenReply:
		return &tq.AuthenReply{}
	case model.KAuthenCont:
		return &tq.AuthenContinue{}
	case model.KAuthorReq:
		return &tq.AuthorRequest{}
	case model.KAuthorReply:
		return &tq.AuthorReply{}
	case model.KAcctReq:
		return &tq.AcctRequest{}
	case model.KAcctReply:
		return &tq.AcctReply{}
	}
	return nil
}

// FromLib converts a library value into neutral form.
func FromLib(v tq.EncoderDecoder) plan.BodySpec {
	bs := func(xs ...string) [][]byte {
		out := make([][]byte, len(xs))
		for i, x := range xs {
			out[i] = []byte(x)
		}
		return out
	}
	switch t := v.(type) {
	case *tq.AuthenStart:
		return plan.BodySpec{Kind: model.KAuthenStart, N: []uint8{uint8(t.Action), uint8(t.PrivLvl), uint8(t.Type), uint8(t.Service)},
			S: bs(string(t.User), string(t.Port), string(t.RemAddr), string(t.Data))}
	case *tq.AuthenReply:
		return plan.BodySpec{Kind: model.KAuthenReply, N: []uint8{uint8(t.Status), uint8(t.Flags)}, S: bs(string(t.ServerMsg), string(t.Data))}
	case *tq.AuthenContinue:
		return plan.BodySpec{Kind: model.KAuthenCont, N: []uint8{uint8(t.Flags)}, S: bs(string(t.UserMessage), string(t.Data))}
	case *tq.AuthorRequest:
		return plan.BodySpec{Kind: model.KAuthorReq, N: []uint8{uint8(t.Method), uint8(t.PrivLvl), uint8(t.Type), uint8(t.Service)},
			S: bs(string(t.User), string(t.Port), string(t.RemAddr)), Args: fromArgs(t.Args)}
	case *tq.AuthorReply:
		return plan.BodySpec{Kind: model.KAuthorReply, N: []uint8{uint8(t.Status)}, S: bs(string(t.ServerMsg), string(t.Data)), Args: fromArgs(t.Args)}
	case *tq.AcctRequest:
		return plan.BodySpec{Kind: model.KAcctReq, N: []uint8{uint8(t.Flags), uint8(t.Method), uint8(t.PrivLvl), uint8(t.Type), uint8(t.Service)},
			S: bs(string(t.User), string(t.Port), string(t.RemAddr)), Args: fromArgs(t.Args)}
	case *tq.AcctReply:
		return plan.BodySpec{Kind: model.KAcctReply, N: []uint8{uint8(t.Status)}, S: bs(string(t.ServerMsg), string(t.Data))}
	}
	return plan.BodySpec{Kind: "unknown"}
}

// LibHeader converts a library header to the model's.
func LibHeader(h tq.Header) model.Header {
	return model.Header{Version: h.Version.MajorVersion<<4 | h.Version.MinorVersion&0x0f, Type: uint8(h.Type), Seq: uint8(h.SeqNo),
		Flags: uint8(h.Flags), Session: uint32(h.SessionID), Length: h.Length}
}

// J renders v as compact JSON (for history records).
func J(v interface{}) string {
	b, _ := json.Marshal(v)
	return string(b)
}
