package sut

import (
	"context"
	"encoding/hex"
	"fmt"
	"net"
	"runtime/debug"
	"sync"

	tq "github.com/facebookincubator/tacquito"
	"github.com/facebookincubator/tacquito/cmds/server/config"
	"github.com/facebookincubator/tacquito/cmds/server/config/accounters/local"
	"github.com/facebookincubator/tacquito/cmds/server/config/authenticators/bcrypt"
	"github.com/facebookincubator/tacquito/cmds/server/config/authorizers/stringy"
	"github.com/facebookincubator/tacquito/cmds/server/config/secret"
	"github.com/facebookincubator/tacquito/cmds/server/config/secret/prefix"
	"github.com/facebookincubator/tacquito/cmds/server/handlers"
	"github.com/facebookincubator/tacquito/cmds/server/loader"
	tjson "github.com/facebookincubator/tacquito/cmds/server/loader/json"
	tyaml "github.com/facebookincubator/tacquito/cmds/server/loader/yaml"

	"tqsim/model"
	"tqsim/plan"
	"tqsim/world"
)

// Source is what both real config loaders offer.
type Source interface {
	Unmarshal(b []byte) error
	Load(path string) error
	Config() chan config.ServerConfig
}

// NewSource returns a fresh real loader front end of the given format.
func NewSource(format string) Source {
	if format == "json" {
		return tjson.New()
	}
	return tyaml.New()
}

// Keychain is the simulated credential store behind the bcrypt authenticator.
type Keychain struct {
	w     *world.World
	mu    sync.Mutex
	Table map[string][]byte
	Fail  map[string]bool
}

// GetSecret implements the bcrypt authenticator's getSecret seam.
func (k *Keychain) GetSecret(ctx context.Context, name, group string) ([]byte, error) {
	if !k.w.Quiet {
		k.w.Rec(world.Ev{Actor: "keychain", Kind: "keychain-get", S: name})
		k.w.Park("keychain")
		k.mu.Lock()
		defer k.mu.Unlock()
	}
	if k.Fail[name] {
		k.w.Fault("keychain-error")
		return nil, fmt.Errorf("keychain unavailable")
	}
	h, ok := k.Table[name]
	if !ok {
		return nil, fmt.Errorf("no such key")
	}
	return h, nil
}

// KeychainFromDocs fills the table with the hashes of users whose authenticator has no
// inline hash but a generator-chosen password.
func KeychainFromDocs(w *world.World, docs []model.Doc, fail []string) *Keychain {
	k := &Keychain{w: w, Table: map[string][]byte{}, Fail: map[string]bool{}}
	for _, f := range fail {
		k.Fail[f] = true
	}
	for _, d := range docs {
		for _, u := range d.Users {
			a := u.EffAuth()
			if a == nil || a.Options["hash"] != "" || a.Password == "" {
				continue
			}
			if a.KeychainErr {
				k.Fail[u.Name] = true
			}
			for _, p := range plan.PwPool {
				if p.Pw == a.Password {
					raw, _ := hex.DecodeString(p.Hash)
					k.Table[u.Name] = raw
				}
			}
		}
	}
	return k
}

// Ref is the assembled reference server configuration path.
type Ref struct {
	Src      Source
	Loader   *loader.Loader
	Provider tq.SecretProvider
	relay    *relay
}

// relay sits between the loader front end's channel and loader.Loader: it forwards
// every published configuration unchanged and keeps the value (which shares its slices
// with what the server goes on to use) together with a snapshot taken at that moment.
type relay struct {
	w     *world.World
	out   chan config.ServerConfig
	mu    sync.Mutex
	vals  []config.ServerConfig
	snaps []string
	taken []int // scheduler step in which the loader took the k-th configuration
}

func newRelay(w *world.World, in chan config.ServerConfig) *relay {
	r := &relay{w: w, out: make(chan config.ServerConfig)}
	go func() {
		for v := range in {
			r.mu.Lock()
			r.vals = append(r.vals, v)
			r.snaps = append(r.snaps, Canon(v))
			k := len(r.vals) - 1
			r.mu.Unlock()
			r.out <- v
			// the loader has taken the k-th configuration the front end accepted; once the
			// system is quiescent with nothing parked it has finished dealing with it. Only
			// the scheduler step is noted here: an event recorded from this goroutine would
			// race with the loader's own log calls for its place in the history
			if w != nil && !w.Quiet {
				r.mu.Lock()
				for len(r.taken) <= k {
					r.taken = append(r.taken, -1)
				}
				r.taken[k] = w.Step()
				r.mu.Unlock()
			}
		}
	}()
	return r
}

// Config implements the loader's unmarshaled interface.
func (r *relay) Config() chan config.ServerConfig { return r.out }

// TakenSteps returns, per configuration the front end accepted, the scheduler step in
// which the loader took it (-1: not yet).
func (rf *Ref) TakenSteps() []int {
	if rf.relay == nil {
		return nil
	}
	rf.relay.mu.Lock()
	defer rf.relay.mu.Unlock()
	return append([]int(nil), rf.relay.taken...)
}

// MutatedPublished returns the indices of published configurations that no longer equal
// the snapshot taken when they were published.
func (rf *Ref) MutatedPublished() []int {
	if rf.relay == nil {
		return nil
	}
	rf.relay.mu.Lock()
	defer rf.relay.mu.Unlock()
	var out []int
	for i := range rf.relay.vals {
		if Canon(rf.relay.vals[i]) != rf.relay.snaps[i] {
			out = append(out, i)
		}
	}
	return out
}

// LoaderOptions returns the option set cmds/server/main.go uses, over simulated seams.
func LoaderOptions(w *world.World, lg *Logger, kc *Keychain, span bool) ([]loader.Option, error) {
	acct, err := local.New(lg, local.SetLogSink(w.Sink))
	if err != nil {
		return nil, err
	}
	opts := []loader.Option{}
	if span {
		// a deployment that mirrors traffic: the span handler dials its destination for
		// every new session; the destinations the generator writes refuse the connection
		opts = append(opts, loader.RegisterHandlerType(config.SPAN, handlers.NewSpan(lg)))
	}
	return append(opts,
		loader.SetLoggerProvider(lg),
		loader.SetKeychainProvider(&ScopeKeychain{w: w, inner: secret.New()}),
		loader.SetConfigProvider(config.New()),
		loader.SetAuthorizerProvider(stringy.New(lg)),
		loader.RegisterSecretProviderType(config.PREFIX, prefix.New(lg)),
		loader.RegisterHandlerType(config.START, handlers.NewStart(lg)),
		loader.RegisterAuthenticator(config.BCRYPT, bcrypt.New(lg, kc)),
		loader.RegisterAccounter(config.FILE, acct),
	), nil
}

// ScopeKeychain is the deployment's keychain for scope secrets (the loader's
// KeychainProvider), with a parking seam in front of every query: a keychain service that
// answers slowly for one scope. Site name: "scope-keychain:" + the configured key.
type ScopeKeychain struct {
	w     *world.World
	inner interface {
		Add(k config.Keychain) func(context.Context, string) ([]byte, error)
	}
}

// Add implements the loader's keychainProvider.
func (k *ScopeKeychain) Add(kc config.Keychain) func(context.Context, string) ([]byte, error) {
	f := k.inner.Add(kc)
	site := "scope-keychain:" + kc.Key
	return func(ctx context.Context, name string) ([]byte, error) {
		if k.w.Quiet {
			k.w.QuietYield(site)
		} else {
			k.w.Park(site)
		}
		return f(ctx, name)
	}
}

// BuildRef assembles the reference server's provider from the first document, exactly
// as cmds/server/main.go does, over the simulated seams.
func BuildRef(ctx context.Context, w *world.World, lg *Logger, kc *Keychain, format string, text []byte, clients []plan.ClientSpec, span bool) (*Ref, error) {
	src := NewSource(format)
	if err := src.Unmarshal(text); err != nil {
		return nil, fmt.Errorf("initial document rejected: %w", err)
	}
	opts, err := LoaderOptions(w, lg, kc, span)
	if err != nil {
		return nil, err
	}
	rl := newRelay(w, src.Config())
	ld, err := loader.NewLoader(ctx, rl, opts...)
	if err != nil {
		return nil, err
	}
	ld.BlockUntilLoaded()
	b := &Binder{w: w, inner: ld, conns: map[string]int{}}
	for i := range clients {
		b.conns[AddrOf(&clients[i], i).String()] = i + 1
	}
	return &Ref{Src: src, Loader: ld, Provider: b, relay: rl}, nil
}

// Binder wraps a SecretProvider: it records the admission decision per connection and
// wraps the returned handler so that every invocation, continuation and reply is
// recorded and panics are caught and reported.
type Binder struct {
	w     *world.World
	inner tq.SecretProvider
	mu    sync.Mutex
	conns map[string]int
	count map[int]int
}

// Get implements tacquito.SecretProvider.
func (b *Binder) Get(ctx context.Context, remote net.Addr) ([]byte, tq.Handler, error) {
	b.mu.Lock()
	id := b.conns[remote.String()]
	b.mu.Unlock()
	b.w.Rec(world.Ev{Actor: "conn", Kind: "get-begin", Conn: id, S: remote.String()})
	sec, h, err := b.inner.Get(ctx, remote)
	es := ""
	if err != nil {
		es = err.Error()
	}
	ok := int64(0)
	if err == nil && sec != nil && h != nil {
		ok = 1
	}
	b.w.Rec(world.Ev{Actor: "conn", Kind: "get-end", Conn: id, A: ok, S: es, Bytes: append([]byte(nil), sec...)})
	if h != nil {
		h = &RecHandler{w: b.w, inner: h, conn: id, ctr: &counter{}}
	}
	return sec, h, err
}

type counter struct {
	mu sync.Mutex
	n  int
}

func (c *counter) next() int { c.mu.Lock(); defer c.mu.Unlock(); c.n++; return c.n - 1 }

// RecHandler records invocations of a real handler.
type RecHandler struct {
	w     *world.World
	inner tq.Handler
	conn  int
	cont  bool
	ctr   *counter
}

// Handle implements tacquito.Handler.
func (r *RecHandler) Handle(resp tq.Response, req tq.Request) {
	idx := r.ctr.next()
	k := int64(0)
	if r.cont {
		k = 1
	}
	inv := Invocation{Conn: r.conn, Index: idx, Handler: int(k), H: LibHeader(req.Header)}
	r.w.Rec(world.Ev{Actor: "conn", Kind: "invoke", Conn: r.conn, A: int64(idx), B: k, S: J(inv), Bytes: append([]byte(nil), req.Body...)})
	defer func() {
		if p := recover(); p != nil {
			r.w.Rec(world.Ev{Actor: "conn", Kind: "panic", Conn: r.conn, S: fmt.Sprintf("%v\n%s", p, debug.Stack())})
		}
		r.w.Rec(world.Ev{Actor: "conn", Kind: "invoke-end", Conn: r.conn, A: int64(idx)})
	}()
	r.inner.Handle(&recResp{Response: resp, r: r}, req)
}

type recResp struct {
	tq.Response
	r *RecHandler
}

func (rr *recResp) Next(next tq.Handler) {
	if next == nil {
		rr.Response.Next(nil)
		return
	}
	rr.r.w.Rec(world.Ev{Actor: "conn", Kind: "next", Conn: rr.r.conn})
	rr.Response.Next(&RecHandler{w: rr.r.w, inner: next, conn: rr.r.conn, cont: true, ctr: rr.r.ctr})
}

func (rr *recResp) Reply(v tq.EncoderDecoder) (int, error) {
	n, err := rr.Response.Reply(v)
	rr.rec(v, n, err)
	return n, err
}

func (rr *recResp) ReplyWithContext(ctx context.Context, v tq.EncoderDecoder, writers ...tq.Writer) (int, error) {
	n, err := rr.Response.ReplyWithContext(ctx, v, writers...)
	rr.rec(v, n, err)
	return n, err
}

func (rr *recResp) rec(v tq.EncoderDecoder, n int, err error) {
	s := ""
	if err != nil {
		s = err.Error()
	}
	d := FromLib(v)
	rr.r.w.Rec(world.Ev{Actor: "conn", Kind: "reply", Conn: rr.r.conn, A: int64(n), S: J(struct {
		V   plan.BodySpec `json:"v"`
		Err string        `json:"err,omitempty"`
	}{d, s})})
}
