package sut

import (
	"encoding/json"

	"github.com/facebookincubator/tacquito/cmds/server/config"
)

// Canon renders a published configuration canonically (for equality and snapshots).
func Canon(c config.ServerConfig) string {
	b, _ := json.Marshal(c)
	return string(b)
}

// TopLevelDiff names the top-level parts in which two published configurations differ.
func TopLevelDiff(a, b config.ServerConfig) []string {
	j := func(v interface{}) string { x, _ := json.Marshal(v); return string(x) }
	var out []string
	if j(a.Secrets) != j(b.Secrets) {
		out = append(out, "secrets")
	}
	if j(a.Users) != j(b.Users) {
		out = append(out, "users")
	}
	if j(a.PrefixDeny) != j(b.PrefixDeny) {
		out = append(out, "prefix_deny")
	}
	if j(a.PrefixAllow) != j(b.PrefixAllow) {
		out = append(out, "prefix_allow")
	}
	return out
}
