package model

import (
	"regexp"
	"strings"
)

// This file restates the reference server's documented AAA semantics (DESIGN appendix
// B) as an executable model. It is evaluated on the Doc the configuration text was
// rendered from and on the cleartext bytes of each request.

// Status constants (RFC 8907).
const (
	AuthenPass    = 1
	AuthenFail    = 2
	AuthenGetData = 3
	AuthenGetUser = 4
	AuthenGetPass = 5
	AuthenRestart = 6
	AuthenError   = 7

	AuthorPassAdd  = 1
	AuthorPassRepl = 2
	AuthorFail     = 0x10
	AuthorError    = 0x11

	AcctSuccess = 1
	AcctError   = 2
)

// Expect is what the model expects the reference server to do with one packet.
type Expect struct {
	Verdict string // "reply" | "terminate" | "badsecret" | "unknown"
	Why     string
	Type    uint8
	// Statuses lists the acceptable reply statuses (one element when determined).
	Statuses []uint8
	// Args: expected authorization reply arguments when ArgsKnown.
	Args      [][]byte
	ArgsKnown bool
	// Continues: the session stays open awaiting a CONTINUE.
	Continues bool
	// MustPass: a well-formed login with the right password (completeness clause).
	MustPass bool
	// PassAllowed: a PASS status would be justified (soundness clause).
	PassAllowed bool
	// NoReply: request numbered 255.
	NoReply bool
	// Band names the ambiguity band the packet falls into, if any.
	Band string
	// SinkRecord: an accounting SUCCESS must be backed by exactly one sink record
	// equal to Acct.
	Acct *AcctRequest
	// Handler position: 0 initial, 1 continuation.
	Handler int
	User    string
}

func one(s uint8) []uint8 { return []uint8{s} }

type refSess struct {
	state string // wantUser | wantPass
	user  string
}

// RefConn models one admitted connection of the reference server.
type RefConn struct {
	Scope string
	Users map[string]UserCfg
	sm    *SessModel
	sess  map[uint32]*refSess
}

// NewRefConn creates the model of a connection admitted into a scope.
func NewRefConn(d Doc, scope string) *RefConn {
	return &RefConn{Scope: scope, Users: d.ScopeUsers(scope), sm: NewSessModel(), sess: map[uint32]*refSess{}}
}

// password the user's authenticator accepts ("" = none can verify).
func verifies(u UserCfg, pw []byte) (known bool, ok bool) {
	a := u.EffAuth()
	if a == nil {
		return true, false
	}
	if a.Type != 1 {
		return true, false // no such authenticator type registered: default deny
	}
	if a.Password == "" || (a.KeychainErr && a.Options["hash"] == "") {
		return true, false
	}
	return true, string(pw) == a.Password
}

// Step processes the next packet on the connection: h is its header, body the bytes
// the server sees after deobfuscation.
func (rc *RefConn) Step(h Header, body []byte, obfuscated bool) Expect {
	verdict, handler, why := rc.sm.Step(h)
	if verdict == Terminate {
		return Expect{Verdict: "terminate", Why: why}
	}
	if obfuscated && Mismatch(h.Type, body) {
		return Expect{Verdict: "badsecret", Why: "key-mismatch signature", Type: h.Type}
	}
	e := Expect{Verdict: "reply", Type: h.Type, Handler: 0}
	if handler != 0 {
		e.Handler = 1
	}
	switch {
	case handler != 0:
		rc.authenContinue(h, body, &e)
	case h.Type == TypeAuthen:
		rc.authenStart(h, body, &e)
	case h.Type == TypeAuthor:
		rc.author(h, body, &e)
	case h.Type == TypeAcct:
		rc.acct(h, body, &e)
	}
	if e.Verdict == "unknown" {
		return e
	}
	if h.Seq == 255 {
		e.NoReply = true
	}
	reg, replySeq := 0, 0
	if e.Continues {
		reg = 1
	} else {
		delete(rc.sess, h.Session)
	}
	if !e.NoReply {
		replySeq = int(h.Seq) + 1
	}
	rc.sm.After(h, reg, replySeq)
	return e
}

func (rc *RefConn) authenStart(h Header, body []byte, e *Expect) {
	st, err := DecodeAuthenStart(body)
	if err != nil || !st.Valid() {
		// not a well-formed START at a START position: FAIL or ERROR, never PASS; what
		// the lenient decoder makes of it is outside the model
		e.Verdict, e.Band = "unknown", "malformed-start"
		return
	}
	minor := h.Minor()
	switch {
	case st.Action == 1 && st.Type == 1 && minor == 0: // ASCII login
		if lenientContinueAbort(body) {
			e.Band = "start-parses-as-continue"
		}
		e.User = string(st.User)
		if len(st.User) == 0 {
			e.Statuses = one(AuthenGetUser)
			e.Continues = true
			rc.sess[h.Session] = &refSess{state: "wantUser"}
			return
		}
		e.Statuses = one(AuthenGetPass)
		e.Continues = true
		rc.sess[h.Session] = &refSess{state: "wantPass", user: string(st.User)}
	case st.Action == 1 && st.Type == 2 && minor == 1: // PAP login
		e.User = string(st.User)
		if len(st.User) == 0 {
			e.Statuses = one(AuthenError)
			return
		}
		if len(st.Data) == 0 {
			e.Statuses = one(AuthenFail)
			return
		}
		rc.verify(string(st.User), st.Data, e)
	default:
		e.Statuses = one(AuthenError)
	}
}

// lenientContinueAbort: read as a CONTINUE whose declared lengths fit inside the body
// (trailing octets tolerated), the abort bit is set.
func lenientContinueAbort(b []byte) bool {
	if len(b) < 5 {
		return false
	}
	return 5+u16(b[0:])+u16(b[2:]) <= len(b) && b[4]&1 != 0
}

func (rc *RefConn) verify(user string, pw []byte, e *Expect) {
	u, ok := rc.Users[user]
	if !ok {
		e.Statuses = one(AuthenFail)
		return
	}
	if _, good := verifies(u, pw); good {
		e.Statuses = one(AuthenPass)
		e.MustPass, e.PassAllowed = true, true
		return
	}
	e.Statuses = one(AuthenFail)
}

func (rc *RefConn) authenContinue(h Header, body []byte, e *Expect) {
	s := rc.sess[h.Session]
	if s == nil || h.Type != TypeAuthen {
		e.Verdict, e.Band = "unknown", "continuation-of-unknown-session"
		return
	}
	ct, err := DecodeAuthenContinue(body)
	if err != nil || !ct.Valid() {
		// out-of-place or malformed packet where a CONTINUE is expected
		e.Verdict, e.Band = "unknown", "malformed-continue"
		return
	}
	e.User = s.user
	if ct.Flags&1 != 0 {
		e.Statuses = one(AuthenFail) // abort
		return
	}
	switch s.state {
	case "wantUser":
		if len(ct.UserMsg) == 0 {
			e.Statuses = one(AuthenError)
			return
		}
		s.user = string(ct.UserMsg)
		s.state = "wantPass"
		e.User = s.user
		e.Statuses = one(AuthenGetPass)
		e.Continues = true
	case "wantPass":
		if len(ct.UserMsg) == 0 {
			e.Statuses = one(AuthenFail)
			return
		}
		if len(ct.UserMsg) >= 256 {
			e.Band = "password>=256"
		}
		rc.verify(s.user, ct.UserMsg, e)
	}
}

// ---- authorization ---------------------------------------------------------------------

// asv splits a trimmed argument at its first '=' or '*'.
func asv(arg string) (a, s, v string) {
	arg = strings.TrimSpace(arg)
	i := strings.IndexAny(arg, "=*")
	if i < 0 {
		return "", "", ""
	}
	return arg[:i], arg[i : i+1], arg[i+1:]
}

func (rc *RefConn) author(h Header, body []byte, e *Expect) {
	rq, err := DecodeAuthorRequest(body)
	if err != nil || !rq.Valid() {
		e.Verdict, e.Band = "unknown", "malformed-author"
		return
	}
	e.User = string(rq.User)
	u, ok := rc.Users[string(rq.User)]
	if !ok {
		e.Statuses = one(AuthorFail)
		return
	}
	args := make([]string, len(rq.Args))
	for i, a := range rq.Args {
		args[i] = string(a)
	}
	// command authorization applies iff the first service argument says shell and the
	// first cmd argument uses '=' with a non-empty value
	service, cmdSep, cmd, haveCmd := "", "", "", false
	haveSvc := false
	for _, x := range args {
		a, s, v := asv(x)
		if a == "service" && !haveSvc {
			service, haveSvc = v, true
		}
		if a == "cmd" && !haveCmd {
			cmdSep, cmd, haveCmd = s, v, true
		}
	}
	if service == "shell" && haveCmd && cmdSep == "=" && cmd != "" {
		rc.command(u, cmd, args, e)
		return
	}
	rc.session(u, args, e)
}

// CommandArgString joins the cmd-arg values with single spaces, leaving out a final <cr>.
func CommandArgString(args []string) string {
	var vals []string
	for i, x := range args {
		a, _, v := asv(x)
		if a != "cmd-arg" {
			continue
		}
		if i == len(args)-1 && strings.EqualFold(v, "<cr>") {
			continue
		}
		vals = append(vals, v)
	}
	return strings.Join(vals, " ")
}

func (rc *RefConn) command(u UserCfg, cmd string, args []string, e *Expect) {
	argStr := CommandArgString(args)
	grantIfSkipInvalid := false
	invalidSeen := false
	decided := false
	permit := false
rules:
	for _, c := range u.EffCommands() {
		name := strings.TrimSpace(c.Name)
		applies := false
		switch {
		case name == "*":
			applies = true
		case name != cmd:
		case len(c.Match) == 0:
			applies = true
		default:
			for _, p := range c.Match {
				p = strings.TrimSpace(p)
				if p == "" {
					if argStr == "" {
						e.Band = "empty-pattern"
					}
					continue
				}
				re, err := regexp.Compile(`\A(?:` + p + `)\z`)
				_, err2 := regexp.Compile(p)
				if err != nil || err2 != nil {
					// invalid pattern reached before any decision: FAIL, or carry on as if
					// it did not match
					if !invalidSeen {
						invalidSeen = true
					}
					continue
				}
				if re.MatchString(argStr) {
					applies = true
					break
				}
			}
		}
		if applies {
			decided = true
			permit = c.Action == ActionPermit
			break rules
		}
	}
	if invalidSeen {
		e.Band = "invalid-pattern"
		grantIfSkipInvalid = decided && permit
		if grantIfSkipInvalid {
			e.Statuses = []uint8{AuthorFail, AuthorPassAdd}
		} else {
			e.Statuses = one(AuthorFail)
		}
		return
	}
	if decided && permit {
		e.Statuses = one(AuthorPassAdd)
		e.Args, e.ArgsKnown = nil, true
		return
	}
	e.Statuses = one(AuthorFail)
}

func dedupe(xs []string) []string {
	seen := map[string]bool{}
	var out []string
	for _, x := range xs {
		t := strings.TrimSpace(x)
		if seen[t] {
			continue
		}
		seen[t] = true
		out = append(out, t)
	}
	return out
}

func renderValue(v ValueCfg) string {
	sep := "="
	if v.Optional {
		sep = "*"
	}
	return v.Name + sep + strings.Join(v.Values, " ")
}

func (rc *RefConn) session(u UserCfg, reqArgs []string, e *Expect) {
	args := dedupe(append(append([]string{}, reqArgs...), "scope="+rc.Scope))
	kv := map[string]string{}
	for _, x := range args {
		a, _, v := asv(x)
		kv[a] = v
	}
	var out []string
	anyOptionalValue := false
	starSelector := false
	for _, s := range u.EffServices() {
		name := strings.TrimSpace(s.Name)
		for _, x := range args {
			a, sep, v := asv(x)
			if a != name && v != name {
				continue
			}
			if a != "cmd" && sep == "*" {
				starSelector = true
			}
			ok := true
			for _, m := range s.Match {
				av, present := kv[m.Name]
				if !present {
					ok = false
					break
				}
				for _, want := range m.Values {
					if av != want {
						ok = false
					}
				}
			}
			if !ok {
				continue
			}
			for _, sv := range s.SetValues {
				if sv.Optional {
					anyOptionalValue = true
				}
				out = append(out, renderValue(sv))
			}
		}
	}
	out = dedupe(out)
	if len(out) == 0 {
		e.Statuses = one(AuthorFail)
		return
	}
	for _, o := range out {
		if len(o) < 2 || len(o) > 255 || !ascii([]byte(o)) {
			// the grant cannot be put on the wire: the request is still owed one answer,
			// and it cannot be a grant
			e.Band = "unencodable-value"
			e.Statuses = []uint8{AuthorError, AuthorFail}
			return
		}
	}
	if len(out) > 255 {
		e.Band = "unencodable-value"
		e.Statuses = []uint8{AuthorError, AuthorFail}
		return
	}
	e.ArgsKnown = true
	for _, o := range out {
		e.Args = append(e.Args, []byte(o))
	}
	switch {
	case anyOptionalValue:
		e.Statuses = one(AuthorPassRepl)
	case starSelector:
		e.Band = "optional-by-request-only"
		e.Statuses = []uint8{AuthorPassAdd, AuthorPassRepl}
	default:
		e.Statuses = one(AuthorPassAdd)
	}
}

// ---- accounting ------------------------------------------------------------------------

func (rc *RefConn) acct(h Header, body []byte, e *Expect) {
	rq, err := DecodeAcctRequest(body)
	if err != nil {
		e.Verdict, e.Band = "unknown", "malformed-acct"
		return
	}
	if !rq.Valid() {
		if rq.Flags&4 != 0 && rq.Flags&8 != 0 {
			e.Statuses = one(AcctError) // contradictory flags
			return
		}
		e.Verdict, e.Band = "unknown", "malformed-acct"
		return
	}
	e.User = string(rq.User)
	u, ok := rc.Users[string(rq.User)]
	if !ok {
		e.Statuses = one(AcctError)
		return
	}
	ac := u.EffAcct()
	if ac == nil || ac.Type != 3 {
		e.Statuses = one(AcctError)
		return
	}
	e.Acct = &rq
	switch {
	case rq.Flags == 2, rq.Flags == 4:
		e.Statuses = one(AcctSuccess)
	case rq.Flags == 8:
		if h.Seq == 1 {
			e.Statuses = one(AcctSuccess)
		} else {
			e.Statuses = one(AcctError)
		}
	case rq.Flags == 0x0a:
		if h.Seq >= 3 {
			e.Statuses = one(AcctSuccess)
		} else {
			e.Statuses = one(AcctError)
		}
	default:
		// other flag octets: the documented accounter answers ERROR; the statement
		// only fixes "never SUCCESS without a record"
		e.Statuses = []uint8{AcctError, AcctSuccess}
		e.Band = "other-acct-flags"
	}
}
