package model

// SessModel is the per-connection session table of RFC 8907 as property C08 states it
// (DESIGN appendix B.7).
type SessModel struct {
	open map[uint32]*sess
}

type sess struct {
	last int // highest sequence number received or sent
	cont int // registered continuation id
}

func NewSessModel() *SessModel { return &SessModel{open: map[uint32]*sess{}} }

// Verdict of Step.
const (
	Dispatch  = "dispatch"
	Terminate = "terminate"
)

// Step decides what happens to a packet with header h: dispatch to handler id (0 is the
// initial handler) or terminate the connection.
func (m *SessModel) Step(h Header) (verdict string, handler int, why string) {
	if !h.ValidHeader() {
		return Terminate, 0, "invalid-header"
	}
	if h.Seq%2 == 0 {
		return Terminate, 0, "even-seq"
	}
	if s, ok := m.open[h.Session]; ok {
		if int(h.Seq) <= s.last {
			return Terminate, 0, "non-increasing-seq"
		}
		return Dispatch, s.cont, ""
	}
	return Dispatch, 0, ""
}

// After records what the handler did: the continuation it registered (0 = none) and
// the sequence number of the reply it sent (0 = no reply).
func (m *SessModel) After(h Header, registered int, replySeq int) {
	if registered <= 0 {
		delete(m.open, h.Session)
		return
	}
	last := int(h.Seq)
	if replySeq > last {
		last = replySeq
	}
	if h.Seq == 255 {
		last = 256 // nothing can follow
	}
	m.open[h.Session] = &sess{last: last, cont: registered}
}

// Open is the number of sessions currently retained.
func (m *SessModel) Open() int { return len(m.open) }

// ---- validity of values (the field types' documented rules) -------------------

func ascii(bs ...[]byte) bool {
	for _, b := range bs {
		for _, c := range b {
			if c > 127 {
				return false
			}
		}
	}
	return true
}

func oneOf(v uint8, set ...uint8) bool {
	for _, s := range set {
		if v == s {
			return true
		}
	}
	return false
}

func methodOK(m uint8) bool { return oneOf(m, 0, 1, 2, 3, 4, 5, 6, 8, 0x10) }

func authorArgsOK(args [][]byte) bool {
	for _, a := range args {
		if !ascii(a) || len(a) < 2 || len(a) > 255 {
			return false
		}
	}
	return true
}

func (a AuthenStart) Valid() bool {
	return oneOf(a.Action, 1, 2, 4) && a.PrivLvl <= 15 && a.Type >= 1 && a.Type <= 6 && a.Service <= 9 &&
		ascii(a.User, a.Port, a.RemAddr) && (a.Type != 1 || ascii(a.Data))
}
func (a AuthenReply) Valid() bool    { return a.Status >= 1 && a.Status <= 7 }
func (a AuthenContinue) Valid() bool { return ascii(a.UserMsg) }
func (a AuthorRequest) Valid() bool {
	return methodOK(a.Method) && a.PrivLvl <= 15 && a.Type <= 6 && a.Service <= 9 && ascii(a.User, a.Port, a.RemAddr) && authorArgsOK(a.Args)
}
func (a AuthorReply) Valid() bool {
	return oneOf(a.Status, 1, 2, 0x10, 0x11) && ascii(a.ServerMsg, a.Data) && authorArgsOK(a.Args)
}
func (a AcctRequest) Valid() bool {
	if a.Flags&4 != 0 && a.Flags&8 != 0 {
		return false
	}
	for _, x := range a.Args {
		if !ascii(x) || len(x) > 255 {
			return false
		}
	}
	return methodOK(a.Method) && a.PrivLvl <= 15 && a.Type <= 6 && a.Service <= 9 && ascii(a.User, a.Port, a.RemAddr)
}
func (a AcctReply) Valid() bool { return oneOf(a.Status, 1, 2) && ascii(a.ServerMsg, a.Data) }
