package model

import (
	"encoding/json"

	"gopkg.in/yaml.v3"
)

// Doc is a server configuration document in neutral form. The generator builds Docs,
// renders them to YAML or JSON text for the real loaders, and the evaluators in this
// package decide AAA and admission outcomes from the Doc itself (never from what the
// loader made of it).
type Doc struct {
	Secrets     []SecretCfg `json:"secrets,omitempty" yaml:"secrets,omitempty"`
	Users       []UserCfg   `json:"users,omitempty" yaml:"users,omitempty"`
	PrefixDeny  []string    `json:"prefix_deny,omitempty" yaml:"prefix_deny,omitempty"`
	PrefixAllow []string    `json:"prefix_allow,omitempty" yaml:"prefix_allow,omitempty"`
	// XSpan: the deployment registers the SPAN handler type next to START (evaluator and
	// harness only, never rendered into the file)
	XSpan bool `json:"x_span,omitempty" yaml:"x_span,omitempty"`
}

type KeychainCfg struct {
	Group string `json:"group" yaml:"group"`
	Key   string `json:"key" yaml:"key"`
}

type HandlerCfg struct {
	Type    int               `json:"type" yaml:"type"`
	Options map[string]string `json:"options,omitempty" yaml:"options,omitempty"`
}

// SecretCfg is one secret configuration (a scope).
type SecretCfg struct {
	Name    string            `json:"name" yaml:"name"`
	Secret  KeychainCfg       `json:"secret" yaml:"secret"`
	Handler HandlerCfg        `json:"handler" yaml:"handler"`
	Type    int               `json:"type" yaml:"type"`
	Options map[string]string `json:"options,omitempty" yaml:"options,omitempty"`
	// Prefixes is what Options["prefixes"] encodes (kept for the evaluator).
	Prefixes []string `json:"x_prefixes,omitempty" yaml:"x_prefixes,omitempty"`
}

type AuthCfg struct {
	Type    int               `json:"type" yaml:"type"`
	Options map[string]string `json:"options,omitempty" yaml:"options,omitempty"`
	// Password is the cleartext the generator hashed into Options["hash"]; "" when the
	// authenticator has no usable hash.
	Password string `json:"x_password,omitempty" yaml:"x_password,omitempty"`
	// KeychainErr: the simulated keychain fails lookups for this credential (fault).
	KeychainErr bool `json:"x_keychain_err,omitempty" yaml:"x_keychain_err,omitempty"`
}

type AcctCfg struct {
	Name    string            `json:"name" yaml:"name"`
	Type    int               `json:"type" yaml:"type"`
	Options map[string]string `json:"options" yaml:"options"`
}

type ValueCfg struct {
	Name     string   `json:"name" yaml:"name"`
	Values   []string `json:"values,omitempty" yaml:"values,omitempty"`
	Optional bool     `json:"is_optional" yaml:"is_optional"`
}

type ServiceCfg struct {
	Name      string     `json:"name" yaml:"name"`
	Match     []ValueCfg `json:"match,omitempty" yaml:"match,omitempty"`
	SetValues []ValueCfg `json:"set_values,omitempty" yaml:"set_values,omitempty"`
	Optional  bool       `json:"is_optional" yaml:"is_optional"`
}

const (
	ActionDeny   = 1
	ActionPermit = 2
)

type CommandCfg struct {
	Name   string   `json:"name" yaml:"name"`
	Match  []string `json:"match,omitempty" yaml:"match,omitempty"`
	Action int      `json:"action" yaml:"action"`
}

type GroupCfg struct {
	Name          string       `json:"name" yaml:"name"`
	Services      []ServiceCfg `json:"services,omitempty" yaml:"services,omitempty"`
	Commands      []CommandCfg `json:"commands,omitempty" yaml:"commands,omitempty"`
	Authenticator *AuthCfg     `json:"authenticator,omitempty" yaml:"authenticator,omitempty"`
	Accounter     *AcctCfg     `json:"accounter,omitempty" yaml:"accounter,omitempty"`
}

type UserCfg struct {
	Name          string       `json:"name" yaml:"name"`
	Scopes        []string     `json:"scopes,omitempty" yaml:"scopes,omitempty"`
	Groups        []GroupCfg   `json:"groups,omitempty" yaml:"groups,omitempty"`
	Services      []ServiceCfg `json:"services,omitempty" yaml:"services,omitempty"`
	Commands      []CommandCfg `json:"commands,omitempty" yaml:"commands,omitempty"`
	Authenticator *AuthCfg     `json:"authenticator,omitempty" yaml:"authenticator,omitempty"`
	Accounter     *AcctCfg     `json:"accounter,omitempty" yaml:"accounter,omitempty"`
}

// Normalize fills derived fields (prefix options) before rendering.
func (d *Doc) Normalize() {
	for i := range d.Secrets {
		s := &d.Secrets[i]
		if s.Prefixes != nil {
			b, _ := json.Marshal(s.Prefixes)
			if s.Options == nil {
				s.Options = map[string]string{}
			}
			s.Options["prefixes"] = string(b)
		} else if p, ok := s.Options["prefixes"]; ok {
			_ = json.Unmarshal([]byte(p), &s.Prefixes)
		}
	}
}

// forRender returns a deep copy without the evaluator-only fields.
func (d Doc) forRender() Doc {
	d.Normalize()
	b, _ := json.Marshal(d)
	var c Doc
	_ = json.Unmarshal(b, &c)
	for i := range c.Secrets {
		c.Secrets[i].Prefixes = nil
	}
	c.XSpan = false
	strip := func(a *AuthCfg) {
		if a != nil {
			a.Password = ""
			a.KeychainErr = false
		}
	}
	for i := range c.Users {
		strip(c.Users[i].Authenticator)
		for j := range c.Users[i].Groups {
			strip(c.Users[i].Groups[j].Authenticator)
		}
	}
	return c
}

// Clone deep-copies the document (evaluator-only fields included).
func (d Doc) Clone() Doc {
	b, _ := json.Marshal(d)
	var c Doc
	_ = json.Unmarshal(b, &c)
	return c
}

// RenderJSON renders the document as JSON text.
func (d Doc) RenderJSON() []byte {
	d = d.forRender()
	b, _ := json.MarshalIndent(d, "", " ")
	return b
}

// RenderYAML renders the document as block-style YAML text.
func (d Doc) RenderYAML() []byte {
	d = d.forRender()
	b, _ := yaml.Marshal(d)
	return b
}

// Render renders in the named format.
func (d Doc) Render(format string) []byte {
	if format == "json" {
		return d.RenderJSON()
	}
	return d.RenderYAML()
}

// ScopeUsers returns the users visible in a scope, later duplicates overriding earlier
// ones, and only those whose authenticator (if any) can be built.
func (d Doc) ScopeUsers(scope string) map[string]UserCfg {
	out := map[string]UserCfg{}
	for _, u := range d.Users {
		in := false
		for _, s := range u.Scopes {
			if s == scope {
				in = true
			}
		}
		if !in {
			continue
		}
		if a := u.EffAuth(); a != nil && a.Type == 1 {
			// the bcrypt authenticator needs a hash or a key; key defaults to the user name
			if a.Options["hash"] == "" && a.Options["key"] == "" && u.Name == "" {
				continue
			}
		}
		out[u.Name] = u
	}
	return out
}

// EffAuth is the user's authenticator: its own, else that of the first group having one.
func (u UserCfg) EffAuth() *AuthCfg {
	if u.Authenticator != nil {
		return u.Authenticator
	}
	for _, g := range u.Groups {
		if g.Authenticator != nil {
			return g.Authenticator
		}
	}
	return nil
}

// EffAcct is the user's accounter: its own, else that of the first group having one.
func (u UserCfg) EffAcct() *AcctCfg {
	if u.Accounter != nil {
		return u.Accounter
	}
	for _, g := range u.Groups {
		if g.Accounter != nil {
			return g.Accounter
		}
	}
	return nil
}

// EffCommands: user rules first, then each group's, in order.
func (u UserCfg) EffCommands() []CommandCfg {
	out := append([]CommandCfg(nil), u.Commands...)
	for _, g := range u.Groups {
		out = append(out, g.Commands...)
	}
	return out
}

// EffServices: user services first, then each group's, in order.
func (u UserCfg) EffServices() []ServiceCfg {
	out := append([]ServiceCfg(nil), u.Services...)
	for _, g := range u.Groups {
		out = append(out, g.Services...)
	}
	return out
}
