package model

import (
	"bytes"
	"testing"
)

// The one captured real-world vector available offline (a TACACS+ authentication START
// obfuscated with the key "fooman"; the bytes are data, quoted from the repository's
// crypt_test.go). The model must reproduce it: pad per RFC 8907 4.5, START layout per 5.1.
var wireVector = []byte{0xc1, 0x01, 0x01, 0x00, 0x00, 0x00, 0x30, 0x39, 0x00, 0x00, 0x00, 0x2c, 0x9c, 0xed, 0x73,
	0xaa, 0x3d, 0x6d, 0x2f, 0x1f, 0xef, 0x62, 0x98, 0x73, 0xf0, 0xac, 0x2f, 0x11, 0x8a, 0xe2, 0x89, 0x8a,
	0xcb, 0x50, 0x72, 0xb2, 0x6d, 0xd2, 0xec, 0xab, 0xe1, 0x4e, 0x22, 0x64, 0x4c, 0x7c, 0xb2, 0xe, 0x43,
	0xe, 0x33, 0x92, 0x85, 0x47, 0xca, 0xfc}

func TestModelAgainstCapturedVector(t *testing.T) {
	h, err := DecodeHeader(wireVector)
	if err != nil {
		t.Fatal(err)
	}
	if h.Version != 0xc1 || h.Type != TypeAuthen || h.Seq != 1 || h.Flags != 0 || h.Session != 12345 || h.Length != 44 {
		t.Fatalf("header decoded as %+v", h)
	}
	clear := Obfuscate(h, []byte("fooman"), wireVector[HeaderLen:])
	st, err := DecodeAuthenStart(clear)
	if err != nil {
		t.Fatalf("START does not decode after deobfuscation: %v (%x)", err, clear)
	}
	if st.Action != 1 || st.PrivLvl != 1 || st.Type != 1 || st.Service != 1 || string(st.User) != "admin" ||
		string(st.Port) != "command-api" || string(st.RemAddr) != "2001:4860:4860::8888" || len(st.Data) != 0 {
		t.Fatalf("START decoded as %+v", st)
	}
	// and back: the model encoder and pad reproduce the captured bytes
	wire := Packet{H: h, Body: st.Encode()}.Wire([]byte("fooman"))
	if !bytes.Equal(wire, wireVector) {
		t.Fatalf("re-encoded %x", wire)
	}
}

func TestClassifier(t *testing.T) {
	// a well-formed START is not a mismatch; random short garbage with large declared
	// lengths is
	ok := AuthenStart{Action: 1, PrivLvl: 1, Type: 1, Service: 1, User: []byte("u")}.Encode()
	if Mismatch(TypeAuthen, ok) {
		t.Fatal("well-formed START classified as mismatch")
	}
	garbage := []byte{0xff, 0xff, 0xff, 0xff, 0xff, 0xff, 0xff, 0xff, 0xff, 0xff, 0xff, 0xff}
	if !Mismatch(TypeAuthen, garbage) {
		t.Fatal("overrunning body not classified as mismatch")
	}
	if Mismatch(TypeAuthen, []byte{1, 2, 3}) {
		t.Fatal("body shorter than every fixed part must be grey, not mismatch")
	}
}

func TestSessionModel(t *testing.T) {
	m := NewSessModel()
	h := Header{Version: 0xc0, Type: 1, Seq: 1, Session: 7}
	if v, hd, _ := m.Step(h); v != Dispatch || hd != 0 {
		t.Fatal("first packet must reach the initial handler")
	}
	m.After(h, 3, 2)
	h.Seq = 3
	if v, hd, _ := m.Step(h); v != Dispatch || hd != 3 {
		t.Fatal("follow-up must reach the registered continuation")
	}
	m.After(h, 3, 4)
	if v, _, _ := m.Step(h); v != Terminate {
		t.Fatal("a used number must terminate")
	}
	h.Seq = 4
	if v, _, _ := m.Step(h); v != Terminate {
		t.Fatal("an even number must terminate")
	}
	h.Seq = 255
	m.Step(h)
	m.After(h, 3, 0)
	h.Seq = 1
	if v, _, _ := m.Step(h); v != Terminate {
		t.Fatal("nothing may follow request 255")
	}
}
