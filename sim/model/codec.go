// Package model is an independent statement of RFC 8907 (wire layouts, obfuscation pad,
// session rules) and of the reference server's documented AAA semantics. It imports
// nothing from tacquito: it is the simulated conformant peer and the oracle.
package model

import (
	"crypto/md5"
	"encoding/binary"
	"errors"
	"fmt"
)

// ---- header [RFC 8907 4.1] -------------------------------------------------
//
//	 1 2 3 4 5 6 7 8  1 2 3 4 5 6 7 8  1 2 3 4 5 6 7 8  1 2 3 4 5 6 7 8
//	+----------------+----------------+----------------+----------------+
//	|major  | minor  |                |                |                |
//	|version| version|      type      |     seq_no     |   flags        |
//	+----------------+----------------+----------------+----------------+
//	|                            session_id                             |
//	+----------------+----------------+----------------+----------------+
//	|                              length                               |
//	+----------------+----------------+----------------+----------------+

const (
	HeaderLen = 12

	TypeAuthen = 1
	TypeAuthor = 2
	TypeAcct   = 3

	FlagUnencrypted   = 0x01
	FlagSingleConnect = 0x04

	MaxBody = 65536
)

// Header is the decoded 12-octet header.
type Header struct {
	Version uint8  `json:"ver"` // whole octet: major<<4 | minor
	Type    uint8  `json:"type"`
	Seq     uint8  `json:"seq"`
	Flags   uint8  `json:"flags"`
	Session uint32 `json:"sess"`
	Length  uint32 `json:"len"`
}

func (h Header) Major() uint8 { return h.Version >> 4 }
func (h Header) Minor() uint8 { return h.Version & 0x0f }

// Encode renders the header.
func (h Header) Encode() []byte {
	b := make([]byte, HeaderLen)
	b[0] = h.Version
	b[1] = h.Type
	b[2] = h.Seq
	b[3] = h.Flags
	binary.BigEndian.PutUint32(b[4:8], h.Session)
	binary.BigEndian.PutUint32(b[8:12], h.Length)
	return b
}

// DecodeHeader parses 12 octets.
func DecodeHeader(b []byte) (Header, error) {
	if len(b) < HeaderLen {
		return Header{}, errors.New("short header")
	}
	return Header{
		Version: b[0], Type: b[1], Seq: b[2], Flags: b[3],
		Session: binary.BigEndian.Uint32(b[4:8]),
		Length:  binary.BigEndian.Uint32(b[8:12]),
	}, nil
}

// ValidHeader says whether a conformant server may process a packet with this header:
// major version 0xc, minor 0 or 1, a known type, a non-zero sequence number, and a
// body no longer than the maximum.
func (h Header) ValidHeader() bool {
	return h.Major() == 0xc && h.Minor() <= 1 && h.Type >= 1 && h.Type <= 3 && h.Seq != 0 && h.Length <= MaxBody
}

// ---- obfuscation [RFC 8907 4.5] --------------------------------------------

// Pad returns the pseudo-random pad of n octets.
func Pad(session uint32, key []byte, version, seq uint8, n int) []byte {
	var pad []byte
	var prev []byte
	for len(pad) < n {
		h := md5.New()
		var sid [4]byte
		binary.BigEndian.PutUint32(sid[:], session)
		h.Write(sid[:])
		h.Write(key)
		h.Write([]byte{version})
		h.Write([]byte{seq})
		h.Write(prev)
		prev = h.Sum(nil)
		pad = append(pad, prev...)
	}
	return pad[:n]
}

// Obfuscate returns body XOR pad (a fresh slice); identity when the unencrypted flag is set.
func Obfuscate(h Header, key []byte, body []byte) []byte {
	out := make([]byte, len(body))
	copy(out, body)
	if h.Flags&FlagUnencrypted != 0 {
		return out
	}
	pad := Pad(h.Session, key, h.Version, h.Seq, len(body))
	for i := range out {
		out[i] ^= pad[i]
	}
	return out
}

// ---- bodies ----------------------------------------------------------------

// Body kinds.
const (
	KAuthenStart = "authen-start"
	KAuthenReply = "authen-reply"
	KAuthenCont  = "authen-continue"
	KAuthorReq   = "author-request"
	KAuthorReply = "author-reply"
	KAcctReq     = "acct-request"
	KAcctReply   = "acct-reply"
)

// AuthenStart [5.1]
//
//	action(1) priv_lvl(1) authen_type(1) authen_service(1)
//	user_len(1) port_len(1) rem_addr_len(1) data_len(1)
//	user port rem_addr data
type AuthenStart struct {
	Action, PrivLvl, Type, Service uint8
	User, Port, RemAddr, Data      []byte
}

// AuthenReply [5.2]: status(1) flags(1) server_msg_len(2) data_len(2) server_msg data
type AuthenReply struct {
	Status, Flags   uint8
	ServerMsg, Data []byte
}

// AuthenContinue [5.3]: user_msg_len(2) data_len(2) flags(1) user_msg data
type AuthenContinue struct {
	Flags         uint8
	UserMsg, Data []byte
}

// AuthorRequest [6.1]
//
//	authen_method(1) priv_lvl(1) authen_type(1) authen_service(1)
//	user_len(1) port_len(1) rem_addr_len(1) arg_cnt(1)
//	arg_1_len .. arg_N_len  user port rem_addr  arg_1 .. arg_N
type AuthorRequest struct {
	Method, PrivLvl, Type, Service uint8
	User, Port, RemAddr            []byte
	Args                           [][]byte
}

// AuthorReply [6.2]
//
//	status(1) arg_cnt(1) server_msg_len(2) data_len(2)
//	arg_1_len .. arg_N_len  server_msg data  arg_1 .. arg_N
type AuthorReply struct {
	Status          uint8
	ServerMsg, Data []byte
	Args            [][]byte
}

// AcctRequest [7.1]
//
//	flags(1) authen_method(1) priv_lvl(1) authen_type(1) authen_service(1)
//	user_len(1) port_len(1) rem_addr_len(1) arg_cnt(1)
//	arg_1_len .. arg_N_len  user port rem_addr  arg_1 .. arg_N
type AcctRequest struct {
	Flags, Method, PrivLvl, Type, Service uint8
	User, Port, RemAddr                   []byte
	Args                                  [][]byte
}

// AcctReply [7.2]: server_msg_len(2) data_len(2) status(1) server_msg data
type AcctReply struct {
	Status          uint8
	ServerMsg, Data []byte
}

func be16(n int) []byte { return []byte{byte(n >> 8), byte(n)} }

func cat(parts ...[]byte) []byte {
	var out []byte
	for _, p := range parts {
		out = append(out, p...)
	}
	if out == nil {
		out = []byte{}
	}
	return out
}

func argLens(args [][]byte) []byte {
	l := make([]byte, len(args))
	for i, a := range args {
		l[i] = byte(len(a))
	}
	return l
}

// Encode functions lay the value out per the RFC. They assume the value Fits().

func (a AuthenStart) Encode() []byte {
	return cat([]byte{a.Action, a.PrivLvl, a.Type, a.Service,
		byte(len(a.User)), byte(len(a.Port)), byte(len(a.RemAddr)), byte(len(a.Data))},
		a.User, a.Port, a.RemAddr, a.Data)
}
func (a AuthenReply) Encode() []byte {
	return cat([]byte{a.Status, a.Flags}, be16(len(a.ServerMsg)), be16(len(a.Data)), a.ServerMsg, a.Data)
}
func (a AuthenContinue) Encode() []byte {
	return cat(be16(len(a.UserMsg)), be16(len(a.Data)), []byte{a.Flags}, a.UserMsg, a.Data)
}
func (a AuthorRequest) Encode() []byte {
	return cat([]byte{a.Method, a.PrivLvl, a.Type, a.Service,
		byte(len(a.User)), byte(len(a.Port)), byte(len(a.RemAddr)), byte(len(a.Args))},
		argLens(a.Args), a.User, a.Port, a.RemAddr, cat(a.Args...))
}
func (a AuthorReply) Encode() []byte {
	return cat([]byte{a.Status, byte(len(a.Args))}, be16(len(a.ServerMsg)), be16(len(a.Data)),
		argLens(a.Args), a.ServerMsg, a.Data, cat(a.Args...))
}
func (a AcctRequest) Encode() []byte {
	return cat([]byte{a.Flags, a.Method, a.PrivLvl, a.Type, a.Service,
		byte(len(a.User)), byte(len(a.Port)), byte(len(a.RemAddr)), byte(len(a.Args))},
		argLens(a.Args), a.User, a.Port, a.RemAddr, cat(a.Args...))
}
func (a AcctReply) Encode() []byte {
	return cat(be16(len(a.ServerMsg)), be16(len(a.Data)), []byte{a.Status}, a.ServerMsg, a.Data)
}

func fit8(bs ...[]byte) bool {
	for _, b := range bs {
		if len(b) > 255 {
			return false
		}
	}
	return true
}
func fit16(bs ...[]byte) bool {
	for _, b := range bs {
		if len(b) > 65535 {
			return false
		}
	}
	return true
}
func argsFit(args [][]byte) bool { return len(args) <= 255 && fit8(args...) }

// Fits says whether every variable field fits its wire length field.
func (a AuthenStart) Fits() bool    { return fit8(a.User, a.Port, a.RemAddr, a.Data) }
func (a AuthenReply) Fits() bool    { return fit16(a.ServerMsg, a.Data) }
func (a AuthenContinue) Fits() bool { return fit16(a.UserMsg, a.Data) }
func (a AuthorRequest) Fits() bool  { return fit8(a.User, a.Port, a.RemAddr) && argsFit(a.Args) }
func (a AuthorReply) Fits() bool    { return fit16(a.ServerMsg, a.Data) && argsFit(a.Args) }
func (a AcctRequest) Fits() bool    { return fit8(a.User, a.Port, a.RemAddr) && argsFit(a.Args) }
func (a AcctReply) Fits() bool      { return fit16(a.ServerMsg, a.Data) }

// ---- strict decoding -------------------------------------------------------

var (
	// ErrShort: the body is shorter than the layout's fixed part.
	ErrShort = errors.New("shorter than fixed part")
	// ErrOverrun: the fixed part is present and the declared lengths exceed the remaining octets.
	ErrOverrun = errors.New("declared lengths exceed body")
	// ErrTrailing: the declared lengths leave octets unused.
	ErrTrailing = errors.New("trailing octets")
)

type rd struct {
	b   []byte
	off int
}

func (r *rd) take(n int) ([]byte, bool) {
	if r.off+n > len(r.b) {
		return nil, false
	}
	s := r.b[r.off : r.off+n : r.off+n]
	r.off += n
	return s, true
}

// layout describes a body: fixed octets, then nArg one-octet lengths, then variable fields.
// It returns the offsets at which each variable field starts given the declared lengths.
func split(b []byte, fixed int, argCntAt int, lens func(fix []byte) []int) (fix []byte, fields [][]byte, args [][]byte, err error) {
	if len(b) < fixed {
		return nil, nil, nil, ErrShort
	}
	r := &rd{b: b}
	fix, _ = r.take(fixed)
	var alens []byte
	if argCntAt >= 0 {
		n := int(fix[argCntAt])
		var ok bool
		alens, ok = r.take(n)
		if !ok {
			return nil, nil, nil, ErrOverrun
		}
	}
	for _, n := range lens(fix) {
		f, ok := r.take(n)
		if !ok {
			return nil, nil, nil, ErrOverrun
		}
		fields = append(fields, f)
	}
	for _, n := range alens {
		a, ok := r.take(int(n))
		if !ok {
			return nil, nil, nil, ErrOverrun
		}
		args = append(args, a)
	}
	if r.off != len(b) {
		return nil, nil, nil, ErrTrailing
	}
	return fix, fields, args, nil
}

func u16(b []byte) int { return int(b[0])<<8 | int(b[1]) }

func DecodeAuthenStart(b []byte) (AuthenStart, error) {
	fix, f, _, err := split(b, 8, -1, func(x []byte) []int { return []int{int(x[4]), int(x[5]), int(x[6]), int(x[7])} })
	if err != nil {
		return AuthenStart{}, err
	}
	return AuthenStart{fix[0], fix[1], fix[2], fix[3], f[0], f[1], f[2], f[3]}, nil
}
func DecodeAuthenReply(b []byte) (AuthenReply, error) {
	fix, f, _, err := split(b, 6, -1, func(x []byte) []int { return []int{u16(x[2:]), u16(x[4:])} })
	if err != nil {
		return AuthenReply{}, err
	}
	return AuthenReply{fix[0], fix[1], f[0], f[1]}, nil
}
func DecodeAuthenContinue(b []byte) (AuthenContinue, error) {
	fix, f, _, err := split(b, 5, -1, func(x []byte) []int { return []int{u16(x[0:]), u16(x[2:])} })
	if err != nil {
		return AuthenContinue{}, err
	}
	return AuthenContinue{fix[4], f[0], f[1]}, nil
}
func DecodeAuthorRequest(b []byte) (AuthorRequest, error) {
	fix, f, args, err := split(b, 8, 7, func(x []byte) []int { return []int{int(x[4]), int(x[5]), int(x[6])} })
	if err != nil {
		return AuthorRequest{}, err
	}
	return AuthorRequest{fix[0], fix[1], fix[2], fix[3], f[0], f[1], f[2], args}, nil
}
func DecodeAuthorReply(b []byte) (AuthorReply, error) {
	fix, f, args, err := split(b, 6, 1, func(x []byte) []int { return []int{u16(x[2:]), u16(x[4:])} })
	if err != nil {
		return AuthorReply{}, err
	}
	return AuthorReply{fix[0], f[0], f[1], args}, nil
}
func DecodeAcctRequest(b []byte) (AcctRequest, error) {
	fix, f, args, err := split(b, 9, 8, func(x []byte) []int { return []int{int(x[5]), int(x[6]), int(x[7])} })
	if err != nil {
		return AcctRequest{}, err
	}
	return AcctRequest{fix[0], fix[1], fix[2], fix[3], fix[4], f[0], f[1], f[2], args}, nil
}
func DecodeAcctReply(b []byte) (AcctReply, error) {
	fix, f, _, err := split(b, 5, -1, func(x []byte) []int { return []int{u16(x[0:]), u16(x[2:])} })
	if err != nil {
		return AcctReply{}, err
	}
	return AcctReply{fix[4], f[0], f[1]}, nil
}

// DecodeErr runs the strict decoder of a kind and returns only its error.
func DecodeErr(kind string, b []byte) error {
	var err error
	switch kind {
	case KAuthenStart:
		_, err = DecodeAuthenStart(b)
	case KAuthenReply:
		_, err = DecodeAuthenReply(b)
	case KAuthenCont:
		_, err = DecodeAuthenContinue(b)
	case KAuthorReq:
		_, err = DecodeAuthorRequest(b)
	case KAuthorReply:
		_, err = DecodeAuthorReply(b)
	case KAcctReq:
		_, err = DecodeAcctRequest(b)
	case KAcctReply:
		_, err = DecodeAcctReply(b)
	default:
		err = fmt.Errorf("unknown kind %q", kind)
	}
	return err
}

// LayoutsOf lists every body layout of a packet type.
func LayoutsOf(typ uint8) []string {
	switch typ {
	case TypeAuthen:
		return []string{KAuthenStart, KAuthenCont, KAuthenReply}
	case TypeAuthor:
		return []string{KAuthorReq, KAuthorReply}
	case TypeAcct:
		return []string{KAcctReq, KAcctReply}
	}
	return nil
}

// Mismatch is the key-mismatch signature of property C19: under every layout of the
// packet type the fixed part is present and the declared lengths exceed the body.
func Mismatch(typ uint8, body []byte) bool {
	ls := LayoutsOf(typ)
	if len(ls) == 0 {
		return false
	}
	for _, k := range ls {
		if DecodeErr(k, body) != ErrOverrun {
			return false
		}
	}
	return true
}

// Packet is a header plus cleartext body.
type Packet struct {
	H    Header
	Body []byte
}

// Wire renders a packet as it travels: header (with Length = len(Body) unless
// lengthOverride >= 0) followed by the obfuscated body.
func (p Packet) Wire(key []byte) []byte {
	h := p.H
	h.Length = uint32(len(p.Body))
	return append(h.Encode(), Obfuscate(h, key, p.Body)...)
}
