package model

import (
	"net"
)

// Admission is the outcome of the admission evaluator for one remote address.
type Admission struct {
	Admit bool
	Scope string
	Key   string
	Why   string
	Band  string // ambiguity band, "" when the statement decides
	// NoUsable: no secret configuration that matches the address can be built (no users,
	// unregistered types): whichever way the band is read, no user exists for the connection
	NoUsable bool
}

// fam normalises an IP: IPv4 and IPv4-mapped IPv6 addresses are IPv4 addresses.
func fam(ip net.IP) (b []byte, v4 bool) {
	if x := ip.To4(); x != nil {
		return x, true
	}
	return ip.To16(), false
}

// contains decides prefix membership within an address family. band is set when the
// statement does not decide (IPv4-mapped address against an IPv6 prefix shorter than
// /96 that covers ::ffff:0:0/96).
func contains(cidr string, ip net.IP, mapped bool) (in bool, band bool, valid bool) {
	_, n, err := net.ParseCIDR(cidr)
	if err != nil || n == nil {
		return false, false, false
	}
	ones, bits := n.Mask.Size()
	nb, nv4 := n.IP, bits == 32
	ab, av4 := fam(ip)
	if nv4 != av4 {
		if av4 && !nv4 && mapped && ones < 96 {
			// does the v6 prefix cover ::ffff:0:0/96?
			m := net.ParseIP("::ffff:0:0")
			if n.Contains(m) || prefixCovers(nb.To16(), ones, m.To16()) {
				return false, true, true
			}
		}
		return false, false, true
	}
	if nv4 {
		nb = nb.To4()
	} else {
		nb = nb.To16()
	}
	return prefixCovers(nb, ones, ab), false, true
}

func prefixCovers(net []byte, ones int, addr []byte) bool {
	if len(net) != len(addr) {
		return false
	}
	for i := 0; i < ones; i++ {
		bi, sh := i/8, uint(7-i%8)
		if (net[bi]>>sh)&1 != (addr[bi]>>sh)&1 {
			return false
		}
	}
	return true
}

// Admit evaluates property C13's rule on the document for a TCP remote address. mapped
// says the address was presented in IPv4-mapped IPv6 form.
func (d Doc) Admit(ip net.IP, isTCP bool, mapped bool) Admission {
	if !isTCP {
		return Admission{Admit: false, Why: "not a TCP address"}
	}
	band := ""
	for _, p := range d.PrefixDeny {
		in, b, _ := contains(p, ip, mapped)
		if b {
			band = "mapped-vs-v6-prefix"
		}
		if in {
			return Admission{Admit: false, Why: "deny prefix " + p}
		}
	}
	nAllow := 0
	allowed := false
	for _, p := range d.PrefixAllow {
		in, b, valid := contains(p, ip, mapped)
		if valid {
			nAllow++
		}
		if b {
			band = "mapped-vs-v6-prefix"
		}
		if in {
			allowed = true
		}
	}
	if nAllow > 0 && !allowed {
		return Admission{Admit: false, Why: "outside the allow list", Band: band}
	}
	for _, s := range d.Secrets {
		match := false
		for _, p := range s.Prefixes {
			in, b, _ := contains(p, ip, mapped)
			if b {
				band = "mapped-vs-v6-prefix"
			}
			if in {
				match = true
			}
		}
		if !match {
			continue
		}
		// START, or SPAN where the deployment registers it: with the mirror host unreachable
		// the span handler logs the failed dial and hands every request to START
		handlerOK := s.Handler.Type == 1 || (s.Handler.Type == 2 && d.XSpan && s.Handler.Options["destination"] != "")
		if len(d.ScopeUsers(s.Name)) == 0 || s.Type != 1 || !handlerOK {
			// a scope without loadable users / unknown types is skipped by the builder:
			// refuse or next match are both acceptable
			usable := false
			for _, t := range d.Secrets {
				tm := false
				for _, p := range t.Prefixes {
					if in, _, _ := contains(p, ip, mapped); in {
						tm = true
					}
				}
				tOK := t.Handler.Type == 1 || (t.Handler.Type == 2 && d.XSpan && t.Handler.Options["destination"] != "")
				if tm && len(d.ScopeUsers(t.Name)) > 0 && t.Type == 1 && tOK {
					usable = true
				}
			}
			return Admission{Admit: false, Why: "first matching scope cannot be built", Band: "userless-scope", NoUsable: !usable}
		}
		return Admission{Admit: true, Scope: s.Name, Key: s.Secret.Key, Band: band}
	}
	return Admission{Admit: false, Why: "no secret configuration matches", Band: band}
}
