package main

import (
	"encoding/json"
	"fmt"
	"os"
	"strconv"

	"tqsim/plan"
)

// dumpplan <property> <seed> <from> <to> <family-substring> : prints matching generated plans, one JSON per line
func main() {
	seed, _ := strconv.ParseUint(os.Args[2], 10, 64)
	from, _ := strconv.Atoi(os.Args[3])
	to, _ := strconv.Atoi(os.Args[4])
	for i := from; i < to; i++ {
		p := plan.Generate(os.Args[1], seed, i, "quick")
		if p == nil {
			continue
		}
		if len(os.Args) > 5 && os.Args[5] == "stall" && !p.Scen.Stall {
			continue
		}
		b, _ := json.Marshal(p)
		fmt.Println(string(b))
	}
}
