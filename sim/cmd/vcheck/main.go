// vcheck is the driver of the deterministic-simulation checks: it rebuilds the worker
// from /repo's current tree, fans seeded runs out to worker processes, attributes
// crashes, minimises and replays violations, applies the known-findings list and
// writes the evidence file.
package main

import (
	"bufio"
	"bytes"
	"encoding/json"
	"flag"
	"fmt"
	"os"
	"os/exec"
	"path/filepath"
	"runtime"
	"sort"
	"strconv"
	"strings"
	"sync"
	"syscall"
	"time"

	"tqsim/plan"
)

type violation struct {
	Property string `json:"property"`
	Class    string `json:"class"`
	Sig      string `json:"sig"`
	Detail   string `json:"detail"`
}

type runRecord struct {
	Run        int             `json:"run"`
	Family     string          `json:"family"`
	Violations []violation     `json:"violations,omitempty"`
	Harness    string          `json:"harness,omitempty"`
	Steps      int             `json:"steps"`
	SimNs      int64           `json:"sim_ns"`
	Events     int             `json:"events"`
	Sig        string          `json:"sig"`
	Raw        string          `json:"raw"`
	Canon      string          `json:"canon"`
	Faults     map[string]int  `json:"faults,omitempty"`
	Probes     map[string]int  `json:"probes,omitempty"`
	Nontrivial bool            `json:"nontrivial"`
	WallUs     int64           `json:"wall_us"`
	Sample     json.RawMessage `json:"sample,omitempty"`
	Plan       json.RawMessage `json:"plan,omitempty"`
}

type job struct {
	Property string `json:"property"`
	Seed     uint64 `json:"seed"`
	Tier     string `json:"tier"`
	From     int    `json:"from"`
	To       int    `json:"to"`
	Stride   int    `json:"stride"`
	PlanFile string `json:"plan_file,omitempty"`
	Out      string `json:"out"`
	Current  string `json:"current"`
	Deadline int64  `json:"deadline_unix,omitempty"`
	DumpHist bool   `json:"dump_hist,omitempty"`
	Build    string `json:"build,omitempty"`
}

type finding struct {
	Property string `json:"property"`
	Sig      string `json:"sig"`
	Status   string `json:"status"` // open | fixed
	Commit   string `json:"commit,omitempty"`
	What     string `json:"what"`
}

var (
	root    = envOr("VERIF_ROOT", "/verif")
	simDir  string
	binDir  string
	workDir string
)

func envOr(k, d string) string {
	if v := os.Getenv(k); v != "" {
		return v
	}
	return d
}

func goEnv() []string {
	env := os.Environ()
	env = append(env, "GOFLAGS=-mod=mod", "GOPROXY=off", "GOSUMDB=off", "GOTOOLCHAIN=local")
	return env
}

func fatal2(format string, args ...interface{}) {
	fmt.Fprintf(os.Stderr, "vcheck: "+format+"\n", args...)
	os.Exit(2)
}

func main() {
	// the tree this binary belongs to: VERIF_ROOT, else the parent of the directory the
	// executable lives in (so that a snapshot of /verif elsewhere works on itself)
	if os.Getenv("VERIF_ROOT") == "" {
		if exe, err := os.Executable(); err == nil {
			cand := filepath.Dir(filepath.Dir(exe))
			if st, err := os.Stat(filepath.Join(cand, "sim", "go.mod")); err == nil && !st.IsDir() {
				root = cand
			}
		}
	}
	simDir = filepath.Join(root, "sim")
	binDir = filepath.Join(root, "bin")
	workDir = filepath.Join(root, ".work")
	if len(os.Args) < 2 {
		fatal2("usage: vcheck <property>|replay <file>|selftest|build [flags]")
	}
	switch os.Args[1] {
	case "build":
		for _, v := range os.Args[2:] {
			if _, err := buildWorker(v); err != nil {
				fatal2("build %s: %v", v, err)
			}
		}
		if len(os.Args) == 2 {
			if _, err := buildWorker("plain"); err != nil {
				fatal2("build: %v", err)
			}
		}
	case "replay":
		if len(os.Args) < 3 {
			fatal2("usage: vcheck replay <file>")
		}
		os.Exit(replay(os.Args[2], len(os.Args) > 3 && os.Args[3] == "-v"))
	case "selftest":
		os.Exit(selftest(os.Args[2:]))
	default:
		os.Exit(check(os.Args[1], os.Args[2:]))
	}
}

// ---- building the worker ---------------------------------------------------------

var buildMu sync.Mutex

// buildWorker rebuilds the worker test binary from /repo's current working tree.
func buildWorker(variant string) (string, error) {
	buildMu.Lock()
	defer buildMu.Unlock()
	os.MkdirAll(binDir, 0o755)
	os.MkdirAll(workDir, 0o755)
	// serialise builds across vcheck processes
	lf, err := os.OpenFile(filepath.Join(workDir, "build.lock"), os.O_CREATE|os.O_RDWR, 0o644)
	if err == nil {
		syscall.Flock(int(lf.Fd()), syscall.LOCK_EX)
		defer func() { syscall.Flock(int(lf.Fd()), syscall.LOCK_UN); lf.Close() }()
	}
	out := filepath.Join(binDir, "worker."+variant+".test")
	tags := "verif"
	var extra []string
	dir := simDir
	switch variant {
	case "plain":
	case "race":
		extra = append(extra, "-race")
	case "yield":
		// instrumented scratch copy of /repo (yield points in the loader)
		d, mod, err := makeYieldCopy()
		if err != nil {
			return "", err
		}
		defer os.RemoveAll(d)
		extra = append(extra, "-modfile", mod)
		tags = "verif,yield"
	default:
		return "", fmt.Errorf("unknown variant %q", variant)
	}
	args := append([]string{"test", "-c", "-tags", tags, "-vet=off", "-o", out}, extra...)
	args = append(args, "./worker")
	cmd := exec.Command("go1.26.8", args...)
	cmd.Dir = dir
	cmd.Env = goEnv()
	b, err := cmd.CombinedOutput()
	if err != nil {
		return "", fmt.Errorf("go test -c failed:\n%s", b)
	}
	return out, nil
}

// ---- running workers ----------------------------------------------------------------

type workerResult struct {
	watchdog bool
	recs     []runRecord
	died     bool
	stderr   string
	current  []byte // plan being executed when the worker died
}

func runWorker(bin string, j job, gomaxprocs int, extraEnv ...string) workerResult {
	jb, _ := json.Marshal(j)
	jf := j.Out + ".job"
	os.WriteFile(jf, jb, 0o644)
	defer os.Remove(jf)
	cmd := exec.Command(bin, "-test.run", "TestWorker", "-test.timeout", "0", "-test.count", "1")
	cmd.Env = append(os.Environ(), "TQSIM_JOB="+jf, "GOMAXPROCS="+strconv.Itoa(gomaxprocs), "GODEBUG=asyncpreemptoff=1")
	cmd.Env = append(cmd.Env, extraEnv...)
	var eb bytes.Buffer
	cmd.Stderr = &eb
	cmd.Stdout = &eb
	// watchdog: a worker that makes no progress (the code under test spins or blocks on
	// something the simulator does not own) is killed; that is harness trouble (exit 2)
	limit := 10 * time.Minute
	if j.Deadline > 0 {
		limit = time.Until(time.Unix(j.Deadline, 0)) + 90*time.Second
	} else if j.PlanFile != "" {
		limit = 35 * time.Second
	}
	var res workerResult
	err := cmd.Start()
	if err == nil {
		done := make(chan error, 1)
		go func() { done <- cmd.Wait() }()
		start := time.Now()
		tick := time.NewTicker(2 * time.Second)
		defer tick.Stop()
	wait:
		for {
			select {
			case err = <-done:
				break wait
			case <-tick.C:
				stuck := time.Since(start) > limit
				if !stuck && j.Current != "" {
					// the worker rewrites this file before every execution; an execution takes
					// milliseconds, and a deadlock in the code under test is reported by the
					// worker itself after 43 s: a plan current for much longer means the code
					// under test is spinning (no goroutine yields, so nothing inside the worker
					// can notice)
					if st, e := os.Stat(j.Current); e == nil && time.Since(st.ModTime()) > 75*time.Second {
						stuck = true
					}
				}
				if stuck {
					// ask the runtime for all stacks (SIGQUIT), then make sure it is gone
					cmd.Process.Signal(syscall.SIGQUIT)
					select {
					case <-done:
					case <-time.After(10 * time.Second):
						cmd.Process.Kill()
						<-done
					}
					res.watchdog = true
					err = fmt.Errorf("watchdog")
					break wait
				}
			}
		}
	}
	if f, e := os.Open(j.Out); e == nil {
		sc := bufio.NewScanner(f)
		sc.Buffer(make([]byte, 1<<20), 1<<26)
		for sc.Scan() {
			var r runRecord
			if json.Unmarshal(sc.Bytes(), &r) == nil {
				res.recs = append(res.recs, r)
			}
		}
		f.Close()
	}
	os.Remove(j.Out)
	res.stderr = eb.String()
	if err != nil {
		res.died = true
		if j.Current != "" {
			res.current, _ = os.ReadFile(j.Current)
		}
	}
	if j.Current != "" {
		os.Remove(j.Current)
	}
	return res
}

// runPlan executes one explicit plan in a fresh worker process.
func runPlan(bin string, p *plan.Plan, dir string, tag string, dump bool) (rec *runRecord, died bool, stderr string) {
	// The schedule of a plan replays exactly; a race *report*, however, is produced by the
	// race detector, whose shadow-memory eviction is not under the simulator's control:
	// race-build plans are therefore tried several times and count as reproduced when any
	// attempt reports.
	tries := 1
	if p.Build == "race" {
		tries = 8
	}
	if nPub := countPublish(p); nPub >= 1 && len(p.Park) > 0 && p.Build != "race" {
		// reloads while the loader is parked: its select statement may find a configuration
		// and a lookup ready at once, and the Go runtime picks one at random
		tries = 6
	}
	for i := 0; i < tries; i++ {
		rec, died, stderr = runPlanOnce(bin, p, dir, tag, dump)
		if died || (rec != nil && len(rec.Violations) > 0) {
			return
		}
	}
	return
}

func countPublish(p *plan.Plan) int {
	n := 0
	for _, c := range p.Scen.Ctl {
		if c.Kind == "publish" {
			n++
		}
	}
	return n
}

func runPlanOnce(bin string, p *plan.Plan, dir string, tag string, dump bool) (rec *runRecord, died bool, stderr string) {
	pf := filepath.Join(dir, "plan-"+tag+".json")
	b, _ := json.Marshal(p)
	os.WriteFile(pf, b, 0o644)
	defer os.Remove(pf)
	j := job{Property: p.Property, PlanFile: pf, Out: filepath.Join(dir, "out-"+tag+".jsonl"), DumpHist: dump}
	env := []string{}
	if p.Build == "race" {
		env = append(env, "GORACE=halt_on_error=1")
	}
	res := runWorker(bin, j, 1, env...)
	if res.died {
		return nil, true, res.stderr
	}
	if len(res.recs) == 0 {
		return nil, false, res.stderr
	}
	return &res.recs[0], false, res.stderr
}

// spinSite: the worker was stopped with SIGQUIT because it made no progress; if the
// goroutine that was running at that moment is inside tacquito code (first frame outside
// the Go distribution), return that source position.
func spinSite(stderr string) string {
	k := strings.Index(stderr, "SIGQUIT: quit")
	if k < 0 {
		return ""
	}
	for _, blk := range strings.Split(stderr[k:], "\n\n") {
		lines := strings.Split(blk, "\n")
		hd := ""
		for _, l := range lines {
			if strings.HasPrefix(l, "goroutine ") {
				hd = l
				break
			}
		}
		if !strings.Contains(hd, "[running") && !strings.Contains(hd, "[runnable") {
			continue
		}
		for _, l := range lines {
			l = strings.TrimSpace(l)
			if !strings.HasPrefix(l, "/") || strings.Contains(l, "/go1.26.8/") {
				continue
			}
			if i := strings.LastIndex(l, "/repo/"); i >= 0 && !strings.Contains(l, "tqsim") {
				site := l[i+len("/repo/"):]
				if sp := strings.IndexAny(site, " +"); sp > 0 {
					site = site[:sp]
				}
				// line numbers inside a loop vary with the instant of the signal
				if c := strings.LastIndex(site, ":"); c > 0 {
					site = site[:c]
				}
				return site
			}
			break
		}
	}
	return ""
}

// deathSig classifies a worker death by its stderr.
func deathSig(prop, stderr string) violation {
	if site := spinSite(stderr); site != "" {
		class := prop + "/worker-death"
		return violation{Property: prop, Class: class, Sig: class + ":spin:" + site, Detail: "code under test does not return: it was still running in " + site + " when the worker was stopped for making no progress"}
	}
	line := "worker process died"
	site := ""
	lines := strings.Split(stderr, "\n")
	for i, l := range lines {
		if strings.HasPrefix(l, "panic:") || strings.HasPrefix(l, "fatal error:") || strings.Contains(l, "WARNING: DATA RACE") {
			line = strings.TrimSpace(l)
			// first frame inside tacquito
			for _, m := range lines[i:] {
				if k := strings.Index(m, "/repo/"); k >= 0 {
					site = strings.TrimSpace(m[k+len("/repo/"):])
					if sp := strings.IndexAny(site, " +"); sp > 0 {
						site = site[:sp]
					}
					break
				}
			}
			break
		}
	}
	class := prop + "/worker-death"
	if strings.Contains(line, "DATA RACE") {
		class = prop + "/data-race"
		site = raceSites(stderr)
	}
	return violation{Property: prop, Class: class, Sig: class + ":" + site, Detail: line + " at " + site}
}

// raceSites extracts the tacquito source positions of the two conflicting accesses.
func raceSites(stderr string) string {
	var sites []string
	lines := strings.Split(stderr, "\n")
	for i, l := range lines {
		t := strings.TrimSpace(l)
		if strings.HasPrefix(t, "Write at") || strings.HasPrefix(t, "Read at") || strings.HasPrefix(t, "Previous write at") || strings.HasPrefix(t, "Previous read at") {
			for _, m := range lines[i+1:] {
				if strings.TrimSpace(m) == "" {
					break
				}
				if k := strings.Index(m, "/repo/"); k >= 0 {
					s := strings.TrimSpace(m[k+len("/repo/"):])
					if sp := strings.IndexAny(s, " +"); sp > 0 {
						s = s[:sp]
					}
					sites = append(sites, s)
					break
				}
			}
		}
	}
	sort.Strings(sites)
	return strings.Join(sites, "|")
}

// ---- check ----------------------------------------------------------------------------

type tierCfg struct {
	budget  time.Duration
	maxRuns int
}

func check(prop string, args []string) int {
	fs := flag.NewFlagSet("check", flag.ExitOnError)
	tier := fs.String("tier", envOr("VERIF_TIER", "quick"), "quick|thorough")
	seedS := fs.String("seed", envOr("VERIF_SEED", "8907"), "seed")
	budget := fs.Int("budget", 0, "seconds of exploration (0 = tier default)")
	maxRuns := fs.Int("runs", 0, "maximum number of runs (0 = tier default)")
	nw := fs.Int("workers", 0, "worker processes (0 = all cores)")
	fast := fs.Bool("fast", false, "do not minimise violations (sensitivity sweeps); the unminimised plan is the replay file")
	fs.Parse(args)
	seed, err := strconv.ParseUint(*seedS, 10, 64)
	if err != nil {
		si, err2 := strconv.ParseInt(*seedS, 10, 64)
		if err2 != nil {
			fatal2("bad seed %q", *seedS)
		}
		seed = uint64(si)
	}
	cfg := tierCfg{budget: 28 * time.Second, maxRuns: 400000}
	if *tier == "thorough" {
		cfg = tierCfg{budget: 8 * time.Minute, maxRuns: 3000000}
	}
	if *budget > 0 {
		cfg.budget = time.Duration(*budget) * time.Second
	}
	if *maxRuns > 0 {
		cfg.maxRuns = *maxRuns
	}
	workers := runtime.NumCPU()
	if workers > 16 {
		workers = 16
	}
	if *nw > 0 {
		workers = *nw
	}
	t0 := time.Now()

	if plan.Generate(prop, seed, 0, *tier) == nil {
		fatal2("no check for property %q", prop)
	}
	variants := variantsOf(prop, *tier)
	bins := map[string]string{}
	for _, v := range variants {
		b, err := buildWorker(v)
		if err != nil {
			fatal2("%v", err)
		}
		bins[v] = b
	}
	dir, err := os.MkdirTemp(workDir, prop+"-")
	if err != nil {
		fatal2("%v", err)
	}
	defer os.RemoveAll(dir)

	// fan out: worker w runs indices w, w+W, ... until the deadline
	deadline := time.Now().Add(cfg.budget)
	var mu sync.Mutex
	var all []runRecord
	type death struct {
		plan   []byte
		stderr string
	}
	var deaths []death
	watchdogs := 0
	killedWorkers := 0
	var wg sync.WaitGroup
	for w := 0; w < workers; w++ {
		wg.Add(1)
		go func(w int) {
			defer wg.Done()
			// with several build variants the workers are split among them; each executes
			// only the plans generated for its variant
			variant := variants[w%len(variants)]
			// this worker's rank among the workers of its variant, and their number: together
			// they cover every run index exactly once per variant
			rank, cnt := 0, 0
			for x := 0; x < workers; x++ {
				if variants[x%len(variants)] == variant {
					if x < w {
						rank++
					}
					cnt++
				}
			}
			from := rank
			for time.Now().Before(deadline) && from < cfg.maxRuns {
				j := job{Property: prop, Seed: seed, Tier: *tier, From: from, To: cfg.maxRuns, Stride: cnt,
					Out: filepath.Join(dir, fmt.Sprintf("out-%d.jsonl", w)), Current: filepath.Join(dir, fmt.Sprintf("cur-%d.json", w)),
					Deadline: deadline.Unix()}
				if distinct(variants) > 1 {
					j.Build = variant
				}
				bin := bins[variant]
				env := []string{}
				if variant == "race" {
					env = append(env, "GORACE=halt_on_error=1")
				}
				res := runWorker(bin, j, 1, env...)
				mu.Lock()
				all = append(all, res.recs...)
				last := from - cnt
				for _, r := range res.recs {
					if r.Run > last {
						last = r.Run
					}
				}
				if res.watchdog && spinSite(res.stderr) != "" && len(res.current) > 0 {
					// the code under test was running (not waiting) in a tacquito frame all
					// that time: a verdict on the plan being executed, not harness trouble
					res.watchdog = false
				}
				if res.watchdog {
					watchdogs++
				}
				killed := res.died && !res.watchdog && !strings.Contains(res.stderr, "panic:") && !strings.Contains(res.stderr, "fatal error:") && !strings.Contains(res.stderr, "DATA RACE") && spinSite(res.stderr) == ""
				if killed {
					// ended by a signal (e.g. the kernel's OOM killer) without any report of
					// its own: an incident of the environment, not a verdict on the run
					killedWorkers++
				}
				if res.died && !res.watchdog && !killed {
					deaths = append(deaths, death{res.current, res.stderr})
					var cp plan.Plan
					if json.Unmarshal(res.current, &cp) == nil && cp.Run > last {
						last = cp.Run
					}
				}
				mu.Unlock()
				if !res.died && (len(res.recs) == 0 || time.Until(deadline) < 2*time.Second) {
					return
				}
				// died: skip the fatal run and carry on. Finished early without dying: the
				// worker recycled itself (memory), carry on from the next index
				from = last + cnt
			}
		}(w)
	}
	wg.Wait()
	sort.Slice(all, func(i, j int) bool { return all[i].Run < all[j].Run })
	if killedWorkers > 3 {
		fmt.Fprintf(os.Stderr, "vcheck: %d workers were killed from outside (no panic, no fatal error in their output)\n", killedWorkers)
		return 2
	}
	if watchdogs > 0 {
		fmt.Fprintf(os.Stderr, "vcheck: %d worker(s) were killed by the watchdog (no progress): the code under test spins or blocks outside the simulator's seams\n", watchdogs)
		return 2
	}

	// ---- collect violations by signature
	type found struct {
		v    violation
		run  int
		plan *plan.Plan
		n    int
	}
	bySig := map[string]*found{}
	harness := map[string]int{}
	for _, r := range all {
		if r.Harness != "" {
			harness[r.Harness]++
		}
		for _, v := range r.Violations {
			f := bySig[v.Sig]
			if f == nil {
				f = &found{v: v, run: r.Run}
				if len(r.Plan) > 0 {
					var pp plan.Plan
					if json.Unmarshal(r.Plan, &pp) == nil {
						f.plan = &pp // the plan exactly as the worker executed it
					}
				}
				bySig[v.Sig] = f
			}
			f.n++
		}
	}
	for _, d := range deaths {
		var cp plan.Plan
		if json.Unmarshal(d.plan, &cp) != nil {
			fmt.Fprintf(os.Stderr, "vcheck: a worker died without a current plan:\n%s\n", tailStr(d.stderr, 3000))
			return 2
		}
		v := deathSig(prop, d.stderr)
		if strings.Contains(d.stderr, "tqsim/") && !strings.Contains(d.stderr, "/repo/") {
			fmt.Fprintf(os.Stderr, "vcheck: worker died inside the harness:\n%s\n", tailStr(d.stderr, 4000))
			return 2
		}
		f := bySig[v.Sig]
		if f == nil {
			cpc := cp
			f = &found{v: v, run: cp.Run, plan: &cpc}
			bySig[v.Sig] = f
		}
		f.n++
	}
	if len(harness) > 0 {
		for h, n := range harness {
			fmt.Fprintf(os.Stderr, "vcheck: harness trouble in %d runs: %s\n", n, h)
		}
		return 2
	}
	if len(all) == 0 {
		fmt.Fprintf(os.Stderr, "vcheck: no run completed\n")
		return 2
	}

	// ---- minimise, replay, classify
	known := loadFindings()
	sigs := make([]string, 0, len(bySig))
	for s := range bySig {
		sigs = append(sigs, s)
	}
	sort.Strings(sigs)
	exit := 0
	nViol := 0
	knownHit := map[string]bool{}
	replayDir := filepath.Join(root, "replays")
	os.MkdirAll(replayDir, 0o755)
	for _, s := range sigs {
		f := bySig[s]
		if kf := matchFinding(known, prop, s); kf != nil {
			if !knownHit[kf.Sig] {
				knownHit[kf.Sig] = true
				fmt.Printf("KNOWN-FINDING: property=%s %s (%s; seen in %d runs, e.g. run %d)\n", prop, kf.What, kf.Sig, f.n, f.run)
			}
			continue
		}
		p := f.plan
		if p == nil {
			p = plan.Generate(prop, seed, f.run, *tier)
		}
		bin := bins[variants[0]]
		if b, ok := bins[p.Build]; ok {
			bin = b
		}
		var min *plan.Plan
		ok := false
		if *fast {
			min, ok = p, true
		} else {
			min, ok = minimise(bin, p, f.v, dir)
		}
		if !ok && strings.Contains(f.v.Class, "data-race") {
			// the race detector reported it in the batch; it did not report again on replay
			// (see runPlan): keep the unminimised plan and the original report
			min, ok = p, true
			f.v.Detail += " (reported by the race detector in the batch run; the replay did not report it again within 8 attempts)"
		}
		if !ok {
			fmt.Fprintf(os.Stderr, "vcheck: violation %s of run %d did not reproduce in a fresh process (harness nondeterminism)\n", s, f.run)
			return 2
		}
		min.Expect = &plan.Expect{Class: f.v.Sig, Detail: f.v.Detail}
		path := filepath.Join(replayDir, fmt.Sprintf("%s-%d-%s.json", prop, seed, sanitize(s)))
		b, _ := json.MarshalIndent(min, "", " ")
		os.WriteFile(path, b, 0o644)
		fmt.Printf("VIOLATION property=%s replay=%s\n", prop, path)
		fmt.Printf("  class=%s runs=%d first_run=%d\n  %s\n", f.v.Sig, f.n, f.run, f.v.Detail)
		nViol++
		exit = 1
	}

	determinism := map[string]int{}
	if *tier == "thorough" {
		// determinism proof for this property's scenarios: same seeded runs in separate
		// processes at GOMAXPROCS 1, 1, 4 and 16
		bad, total, noise := selftestProps([]string{prop}, 60, false)
		determinism = map[string]int{"comparisons": total, "diverged": bad, "differed_under_load_but_replay_identically": noise}
		if bad > 0 {
			fmt.Fprintf(os.Stderr, "vcheck: determinism self-test failed for %s\n", prop)
			return 2
		}
	}
	writeEvidence(prop, *tier, seed, all, len(deaths), nViol, len(knownHit), time.Since(t0), variants, workers, determinism)
	fmt.Printf("%s %s: %d runs, %d violation classes, %d known findings, %.1fs\n", prop, *tier, len(all), nViol, len(knownHit), time.Since(t0).Seconds())
	return exit
}

func tailStr(s string, n int) string {
	if len(s) > n {
		return s[len(s)-n:]
	}
	return s
}

func sanitize(s string) string {
	var b strings.Builder
	for _, r := range s {
		if (r >= 'a' && r <= 'z') || (r >= 'A' && r <= 'Z') || (r >= '0' && r <= '9') || r == '-' {
			b.WriteRune(r)
		} else {
			b.WriteByte('_')
		}
	}
	out := b.String()
	if len(out) > 80 {
		out = out[:80]
	}
	return out
}

// variantsOf lists the worker builds a property's plans need; an entry repeated gives
// that build a larger share of the workers.
func variantsOf(prop, tier string) []string {
	switch prop {
	case "C15":
		return []string{"race", "yield"}
	case "C13":
		return []string{"plain", "plain", "plain", "yield"}
	}
	return []string{"plain"}
}

func dedupe(xs []string) []string {
	var out []string
	m := map[string]bool{}
	for _, x := range xs {
		if !m[x] {
			m[x] = true
			out = append(out, x)
		}
	}
	return out
}

func distinct(xs []string) int {
	m := map[string]bool{}
	for _, x := range xs {
		m[x] = true
	}
	return len(m)
}

// ---- known findings -------------------------------------------------------------------

func loadFindings() []finding {
	b, err := os.ReadFile(filepath.Join(root, "known_findings.json"))
	if err != nil {
		return nil
	}
	var fs []finding
	if err := json.Unmarshal(b, &fs); err != nil {
		fatal2("known_findings.json: %v", err)
	}
	return fs
}

func matchFinding(fs []finding, prop, sig string) *finding {
	for i := range fs {
		f := &fs[i]
		if f.Property == prop && f.Status == "open" && f.Sig == sig {
			return f
		}
	}
	return nil
}

// ---- minimisation ---------------------------------------------------------------------

func sameViolation(rec *runRecord, died bool, stderr string, want violation, prop string) bool {
	if died {
		return deathSig(prop, stderr).Sig == want.Sig
	}
	if rec == nil {
		return false
	}
	for _, v := range rec.Violations {
		if v.Sig == want.Sig {
			return true
		}
	}
	return false
}

// minimise delta-debugs the plan, each candidate in a fresh worker process, keeping a
// candidate only while the same violation signature persists. The result is replayed
// once more; ok=false means the violation did not reproduce at all.
func minimise(bin string, p *plan.Plan, want violation, dir string) (*plan.Plan, bool) {
	rec, died, se := runPlan(bin, p, dir, "repro", false)
	for k := 0; k < 2 && !sameViolation(rec, died, se, want, p.Property); k++ {
		rec, died, se = runPlan(bin, p, dir, "repro", false)
	}
	if !sameViolation(rec, died, se, want, p.Property) {
		return nil, false
	}
	cur := p
	attempts := 0
	maxAttempts := 400
	deadline := time.Now().Add(90 * time.Second)
	if p.Build == "race" {
		maxAttempts = 40
		deadline = time.Now().Add(45 * time.Second)
	}
	for progress := true; progress && attempts < maxAttempts && time.Now().Before(deadline); {
		progress = false
		for _, cand := range plan.Candidates(cur) {
			if attempts >= maxAttempts || time.Now().After(deadline) {
				break
			}
			if cand.Size() >= cur.Size() {
				continue
			}
			attempts++
			rec, died, se := runPlan(bin, cand, dir, "cand", false)
			if sameViolation(rec, died, se, want, p.Property) {
				cur = cand
				progress = true
				break
			}
		}
	}
	rec, died, se = runPlan(bin, cur, dir, "final", false)
	if !sameViolation(rec, died, se, want, p.Property) {
		return nil, false
	}
	return cur, true
}

// ---- replay ---------------------------------------------------------------------------

func replay(path string, verbose bool) int {
	b, err := os.ReadFile(path)
	if err != nil {
		fatal2("%v", err)
	}
	var p plan.Plan
	if err := json.Unmarshal(b, &p); err != nil {
		fatal2("replay file: %v", err)
	}
	variant := "plain"
	if p.Build != "" && p.Build != "plain" {
		variant = p.Build
	}
	bin, err := buildWorker(variant)
	if err != nil {
		fatal2("%v", err)
	}
	os.MkdirAll(workDir, 0o755)
	dir, _ := os.MkdirTemp(workDir, "replay-")
	defer os.RemoveAll(dir)
	rec, died, se := runPlan(bin, &p, dir, "replay", verbose)
	if verbose {
		fmt.Fprint(os.Stderr, se)
	}
	if died {
		v := deathSig(p.Property, se)
		fmt.Printf("VIOLATION property=%s replay=%s\n  class=%s\n  %s\n", p.Property, path, v.Sig, v.Detail)
		if p.Expect != nil && p.Expect.Class != v.Sig {
			fmt.Printf("  (expected class %s)\n", p.Expect.Class)
		}
		return 1
	}
	if rec == nil {
		fatal2("replay produced no result:\n%s", tailStr(se, 2000))
	}
	if rec.Harness != "" {
		fatal2("harness trouble: %s", rec.Harness)
	}
	hit := false
	for _, v := range rec.Violations {
		if p.Expect == nil || v.Sig == p.Expect.Class {
			fmt.Printf("VIOLATION property=%s replay=%s\n  class=%s\n  %s\n", p.Property, path, v.Sig, v.Detail)
			hit = true
		}
	}
	if hit {
		return 1
	}
	for _, v := range rec.Violations {
		fmt.Printf("other violation: %s %s\n", v.Sig, v.Detail)
	}
	fmt.Printf("replay of %s: no violation (steps=%d events=%d raw=%s)\n", path, rec.Steps, rec.Events, rec.Raw[:16])
	return 0
}

// ---- evidence ---------------------------------------------------------------------------

func writeEvidence(prop, tier string, seed uint64, all []runRecord, deaths, nViol, nKnown int, wall time.Duration, variants []string, workers int, determinism map[string]int) {
	sigs := map[string]bool{}
	nontrivSigs := map[string]bool{}
	faults := map[string]int{}
	probes := map[string]int{}
	fam := map[string]int{}
	var simNs, steps, events int64
	var samples []json.RawMessage
	for _, r := range all {
		sigs[r.Sig] = true
		if r.Nontrivial {
			nontrivSigs[r.Sig] = true
		}
		for k, v := range r.Faults {
			faults[k] += v
		}
		for k, v := range r.Probes {
			probes[k] += v
		}
		fam[r.Family]++
		simNs += r.SimNs
		steps += int64(r.Steps)
		events += int64(r.Events)
		if r.Sample != nil && len(samples) < 3 {
			samples = append(samples, r.Sample)
		}
	}
	if len(samples) == 0 {
		samples = append(samples, json.RawMessage(`"no sample recorded"`))
	}
	meta := propMeta[prop]
	perHour := float64(len(all)) / wall.Hours()
	ev := map[string]interface{}{
		"property_id": prop,
		"tier":        tier,
		"seed":        int64(seed & 0x7fffffffffffffff),
		"level":       "exploration",
		"wall_s":      wall.Seconds(),
		"violations":  nViol,
		"coverage": map[string]interface{}{
			"evaluations":         len(all),
			"distinct_nontrivial": len(nontrivSigs),
			"rule": "one evaluation = one simulated run (scenario + tape derived from VERIF_SEED and the run index) of the real code inside a testing/synctest bubble; " +
				"distinct = distinct history signatures (hash of the sequence of history events: kind, connection, bucketed size); non-trivial = the run had >= 2 connections, or >= 1 injected fault fired, or >= 8 scheduler steps. " + meta.rule,
			"samples":                 samples,
			"distinct_histories":      len(sigs),
			"runs_per_hour":           int64(perHour),
			"seeds_per_hour":          int64(perHour),
			"simulated_seconds":       float64(simNs) / 1e9,
			"scheduler_steps":         steps,
			"history_events":          events,
			"faults_fired":            faults,
			"probes":                  probes,
			"families":                fam,
			"worker_deaths":           deaths,
			"known_findings_reported": nKnown,
			"workers":                 workers,
			"builds":                  dedupe(variants),
			"real_components":         meta.realParts,
			"stubbed_components":      []string{"listener", "connections (byte streams, deadlines, close/reset)", "clock (testing/synctest fake clock)", "logger backend", "accounting sink", "bcrypt keychain backend", "config source/file watcher", "peers (independent RFC 8907 model clients/servers)"},
		},
		"assumptions": append([]string{
			"std/runtime are go1.26.8's (testing/synctest); the repository's baseline suite runs on the default toolchain",
			"a clean batch is evidence over the sampled seeds, schedules and values, not a proof",
			"GOMAXPROCS=1 per worker; determinism of replay is checked by re-running the minimised plan in a fresh process",
		}, meta.assume...),
	}
	os.MkdirAll(filepath.Join(root, "evidence"), 0o755)
	b, _ := json.MarshalIndent(ev, "", " ")
	os.WriteFile(filepath.Join(root, "evidence", prop+".json"), b, 0o644)
}

type meta struct {
	rule      string
	realParts []string
	assume    []string
}

var libParts = []string{"tacquito.Server.Serve/serve/handle", "crypter read/write + MD5 pad", "sessions", "waitGroup", "response.Reply", "header/packet/body codecs"}
var refParts = append(append([]string{}, libParts...), "cmds/server/loader (Loader, prefix filters)", "loader/yaml or loader/json", "config/secret/prefix provider", "handlers (Start, AuthenticateStart/ASCII/PAP, AuthorizeRequest, AccountingRequest, ResponseLogger)", "authenticators/bcrypt", "authorizers/stringy", "accounters/local", "gopkg.in/yaml.v3 / encoding/json", "x/crypto/bcrypt")

func mk(rule string, parts []string, assume ...string) meta {
	return meta{rule: rule, realParts: parts, assume: assume}
}

var clientParts = []string{"tacquito.Client (Send/SendOnly/Close) over the simulated connection via the verif-tagged SetClientConn", "crypter read/write + MD5 pad", "header/packet/body codecs"}

var propMeta = map[string]meta{
	"C01": mk("Families: model client vs real server (probe handlers decode with the library, reply through Response.Reply) and real tacquito.Client vs model server.", append(append([]string{}, libParts...), clientParts...), "input property: schedules and faults are on but do not decide; the independent RFC 8907 peer decides"),
	"C02": mk("Same pairings as C01 with values on both sides of every wire-width boundary; plus the passive tap (decode-encode-decode on every body seen on the wire).", append(append([]string{}, libParts...), clientParts...), "input property: the independent representability model decides"),
	"C03": mk("Same pairings as C01 with secrets of 0..64 octets, boundary session ids, both versions, sequence numbers up to 255 and body lengths around multiples of 16 and 65536.", append(append([]string{}, libParts...), clientParts...), "input property: the independent MD5 pad decides"),
	"C04": mk("Families: hostile streams into the real server with probe handlers, into the reference server, and hostile replies into the real client; every truncation is a connection cut, every corruption a bit flipped in transit; the tap hands every observed prefix, packet and body to all public decoders with poisoned spare capacity; allocation is measured per scheduler step.", append(append([]string{}, refParts...), clientParts...), "covers byte strings reachable on the simulated wire under the injected faults"),
	"C05": mk("1..12 pipelined packets (bodies 0..65536) with every read boundary decided by the tape; sub-scenarios: oversize header only, stream cut inside a packet, stall past the deadline.", libParts),
	"C06": mk("Multi-packet, multi-session exchanges with every flag octet, both minor versions, sequence numbers up to 255; raw-byte tap on every reply.", libParts),
	"C07": mk("Reference server under generated configurations; all AAA paths incl. error paths, keychain faults and rejection workloads; model-free clause: packets written inside each handler invocation.", refParts),
	"C08": mk("Histories of (session, sequence number, kind) incl. replays, even numbers, decreases, jumps and the top of the sequence space against scripted continuations; compared with an executable session-table model.", libParts),
	"C09": mk("2..8 session scripts per connection on up to 4 connections, interleaving chosen by the seed, overlap by the tape (batch steps, handlers parked at logger/keychain/sink seams); every session is also run alone on a fresh server and the raw transcripts compared.", refParts),
	"C10": mk("Generated users x groups x scopes x authenticators (inline hash, keychain, odd options) and every START variant, ASCII/PAP logins, aborts, stray CONTINUEs, mid-exchange STARTs; statuses compared with the reference model.", refParts),
	"C11": mk("Generated permit/deny rules (alternations, partial anchors, escaped metacharacters, invalid syntax, whitespace), services with match conditions, arbitrary request argument lists; compared with the independent policy evaluator.", refParts, "input/configuration property: the evaluator decides, schedules do not"),
	"C12": mk("Accounting requests with every flag octet and text over all 128 ASCII codes; simulated sink renders Printf exactly; record decoded independently. Family syslog-accounter: the real syslog-backed accounter with a real log/syslog.Writer against a scripted daemon on a unix datagram socket that goes away and comes back (sequential, outside the bubble).", append(append([]string{}, refParts...), "accounters/syslog (real log/syslog.Writer over a unix datagram socket; the daemon is the harness)")),
	"C13": mk("Remote addresses (IPv4, IPv6, IPv4-mapped, prefix boundaries and neighbours, non-TCP) handed out by the simulated listener against overlapping prefixes and deny/allow lists; compared with the admission evaluator. Family concurrent-admission (yield build): several lookups in flight through freshly built filters and providers, checked with porcupine against the evaluator.", append(append([]string{}, refParts...), "loader.go, prefix_filter.go and secret/prefix/provider.go with a parking point before every statement (yield build)"), "input/configuration property: the evaluator decides; the concurrent family adds schedules"),
	"C14": mk("Hostile clients (random bytes, mutated/truncated packets, oversize, every body kind in every handler state, odd authenticator options, key mismatches) next to control clients before and after.", refParts),
	"C15": mk("race-batches (race-detector build, batch steps, Gosched yield seams), atomic-reload (yield-instrumented loader, porcupine), published-config-immutable (snapshots).", append(append([]string{}, refParts...), "Go race detector", "cmds/server/loader/loader.go with a parking point before every statement (yield build)")),
	"C16": mk("config-history: one long-lived YAML/JSON loader vs a fresh one after every step of a document history with torn/short/stale-tail/empty/garbage file faults; reload-end-to-end: the reference server reloads while clients come and go.", refParts, "fsnotify's inotify loop is stubbed by calling Load/Unmarshal on the same loader object"),
	"C17": mk("0..6 connections idle/mid-header/mid-body/handler parked/write blocked; cancellation, accept faults and listener close placed by the tape (also in the same step as an accept or delivery); clock advanced to just before/at/after each deadline.", libParts),
	"C18": mk("All authentication histories of C10 with unique 20-character passwords and secrets; every logger call recorded; token scan in raw/hex/base64/byte-list form.", refParts),
	"C19": mk("Clients holding another secret (and the converse: same secret, clear flag); bodies classified by the independent length-consistency classifier.", refParts, "input property: the classifier decides"),
	"C20": mk("Histories mixing completed/abandoned sessions, refused admissions, even first sequence numbers, key mismatches, resets, shutdown with open connections; gauges read at every quiescent step; in a few runs hundreds of sessions wait on one connection before it closes, is reset, idles out or the server stops; in part of the runs a sibling Server value holds idle connections during the burst.", libParts, "gauges are process-global: values are relative to the run's baseline (with a sibling: to the value read once its connections are open)"),
}

// makeYieldCopy is defined in yield.go.
