package main

import "fmt"

func makeYieldCopy() (dir string, modfile string, err error) {
	return "", "", fmt.Errorf("yield build not available yet")
}

func selftest(args []string) int {
	fmt.Println("selftest: not implemented yet")
	return 2
}
