package main

import (
	"fmt"
	"os"
	"os/exec"
	"path/filepath"
	"sort"
	"strings"

	"tqsim/plan"
)

// yieldFiles are the files of /repo that get a yield point before every statement.
var yieldFiles = []string{"cmds/server/loader/loader.go", "cmds/server/loader/prefix_filter.go", "cmds/server/config/secret/prefix/provider.go"}

// makeYieldCopy builds the yield-instrumented scratch copy of /repo's current working
// tree and an alternative go.mod pointing the replace directive at it.
func makeYieldCopy() (dir string, modfile string, err error) {
	dir, err = os.MkdirTemp(workDir, "yield-")
	if err != nil {
		return "", "", err
	}
	tool := filepath.Join(binDir, "yieldify")
	b := exec.Command("go1.26.8", "build", "-o", tool, "./cmd/yieldify")
	b.Dir = simDir
	b.Env = goEnv()
	if out, e := b.CombinedOutput(); e != nil {
		os.RemoveAll(dir)
		return "", "", fmt.Errorf("build yieldify: %v\n%s", e, out)
	}
	args := append([]string{"/repo", filepath.Join(dir, "repo")}, yieldFiles...)
	if out, e := exec.Command(tool, args...).CombinedOutput(); e != nil {
		os.RemoveAll(dir)
		return "", "", fmt.Errorf("yieldify: %v\n%s", e, out)
	}
	mod, e := os.ReadFile(filepath.Join(simDir, "go.mod"))
	if e != nil {
		os.RemoveAll(dir)
		return "", "", e
	}
	alt := strings.Replace(string(mod), "=> /repo", "=> "+filepath.Join(dir, "repo"), 1)
	modfile = filepath.Join(dir, "alt.mod")
	os.WriteFile(modfile, []byte(alt), 0o644)
	sum, _ := os.ReadFile(filepath.Join(simDir, "go.sum"))
	os.WriteFile(filepath.Join(dir, "alt.sum"), sum, 0o644)
	return dir, modfile, nil
}

// selftest proves determinism: for every property the same seeded runs are executed in
// separate worker processes at GOMAXPROCS 1, 4 and 16 (and twice at 1) and the SHA-256
// of every run's complete history is compared. A divergence is a harness defect (exit 2).
func selftest(args []string) int {
	runs := 120
	props := plan.Properties()
	sort.Strings(props)
	for i, a := range args {
		if a == "--runs" && i+1 < len(args) {
			fmt.Sscanf(args[i+1], "%d", &runs)
		}
		if a == "--props" && i+1 < len(args) {
			props = strings.Split(args[i+1], ",")
		}
	}
	bad, _, _ := selftestProps(props, runs, true)
	if bad > 0 {
		return 2
	}
	return 0
}

// selftestProps runs the determinism comparison for the given properties and returns
// (diverged, compared, load-noise) counts.
func selftestProps(props []string, runs int, verbose bool) (int, int, int) {
	bin, err := buildWorker("plain")
	if err != nil {
		fatal2("%v", err)
	}
	os.MkdirAll(workDir, 0o755)
	dir, _ := os.MkdirTemp(workDir, "selftest-")
	defer os.RemoveAll(dir)
	bad := 0
	total := 0
	loadNoise := 0
	type res struct {
		prop string
		cfg  int
		recs []runRecord
	}
	cfgs := []int{1, 1, 4, 16}
	ch := make(chan res, len(props)*len(cfgs))
	sem := make(chan struct{}, 6)
	for _, p := range props {
		if plan.Generate(p, 1, 0, "quick") == nil {
			continue
		}
		for ci, gmp := range cfgs {
			p, ci, gmp := p, ci, gmp
			sem <- struct{}{}
			go func() {
				defer func() { <-sem }()
				j := job{Property: p, Seed: 424242, Tier: "quick", From: 0, To: runs, Stride: 1, Build: "plain",
					Out: filepath.Join(dir, fmt.Sprintf("st-%s-%d.jsonl", p, ci))}
				r := runWorker(bin, j, gmp)
				if r.died {
					fmt.Fprintf(os.Stderr, "selftest: worker died for %s (GOMAXPROCS=%d):\n%s\n", p, gmp, tailStr(r.stderr, 1500))
				}
				ch <- res{p, ci, r.recs}
			}()
		}
	}
	got := map[string]map[int][]runRecord{}
	n := 0
	for _, p := range props {
		if plan.Generate(p, 1, 0, "quick") != nil {
			n += len(cfgs)
		}
	}
	for i := 0; i < n; i++ {
		r := <-ch
		if got[r.prop] == nil {
			got[r.prop] = map[int][]runRecord{}
		}
		got[r.prop][r.cfg] = r.recs
	}
	for _, p := range props {
		m := got[p]
		if m == nil {
			continue
		}
		base := map[int]string{}
		baseCanon := map[int]string{}
		for _, r := range m[0] {
			base[r.Run] = r.Raw
			baseCanon[r.Run] = r.Canon
		}
		div, rawDiv, parDiv, selectRuns := 0, 0, 0, 0
		// runs in which the loader's select statement had two ready cases: the Go runtime
		// picks one at random; they are counted, not compared
		selectRace := map[int]bool{}
		for ci := range cfgs {
			for _, r := range m[ci] {
				if r.Probes["go-select-choice"] > 0 {
					selectRace[r.Run] = true
				}
			}
		}
		selectRuns = len(selectRace)
		for ci := 1; ci < len(cfgs); ci++ {
			if len(m[ci]) != len(m[0]) {
				div++
				fmt.Printf("selftest %s: %d runs at config %d, %d at config 0\n", p, len(m[ci]), ci, len(m[0]))
			}
			for _, r := range m[ci] {
				if selectRace[r.Run] {
					continue
				}
				// same GOMAXPROCS: the complete history must be byte-identical. More
				// processors: every actor's own history must be identical (goroutines
				// released by one step may reach their seams in another real-time order)
				same := baseCanon[r.Run] == r.Canon
				if cfgs[ci] == cfgs[0] {
					same = base[r.Run] == r.Raw
				}
				if base[r.Run] != r.Raw {
					rawDiv++
				}
				if !same && cfgs[ci] == cfgs[0] {
					// re-run the run three times, each in a process of its own: if those agree
					// the batch difference came from runtime preemption under load (several
					// goroutines runnable in one step), not from an unowned choice
					hs := map[string]bool{}
					for k := 0; k < 3; k++ {
						j := job{Property: p, Seed: 424242, Tier: "quick", From: r.Run, To: r.Run + 1, Stride: 1, Build: "plain",
							Out: filepath.Join(dir, fmt.Sprintf("st-iso-%s-%d-%d.jsonl", p, r.Run, k))}
						rr := runWorker(bin, j, 1)
						for _, x := range rr.recs {
							hs[x.Raw] = true
						}
					}
					if len(hs) == 1 {
						loadNoise++
						fmt.Printf("selftest %s: run %d differed between two loaded batch processes but replays identically in isolation (3/3)\n", p, r.Run)
						continue
					}
				}
				if !same && cfgs[ci] != cfgs[0] {
					// checks, minimisation and replay run workers at GOMAXPROCS=1; with real
					// parallelism goroutines released by one batch step reach a shared seam in
					// another order and take other park ids: reported, not a failure
					parDiv++
					continue
				}
				if !same {
					div++
					if div < 4 {
						fmt.Printf("selftest %s: run %d diverges at GOMAXPROCS=%d\n", p, r.Run, cfgs[ci])
					}
				}
			}
		}
		total += len(m[0]) * (len(cfgs) - 1)
		if verbose || div > 0 {
			fmt.Printf("selftest %-4s %4d runs x %d executions: %d divergences at GOMAXPROCS=1; at GOMAXPROCS 4/16: %d actor-history differences, %d raw-order differences; %d runs set aside (Go select had two ready cases)\n", p, len(m[0]), len(cfgs), div, parDiv, rawDiv, selectRuns)
		}
		bad += div
	}
	// iteration over maps or sync.Map in the simulator would be an unowned source of nondeterminism
	out, _ := exec.Command("grep", "-rn", "--include=*.go", "-E", `\.Range\(|for .* range .*(map\[|Faults|Probes)`, filepath.Join(simDir, "runner"), filepath.Join(simDir, "world"), filepath.Join(simDir, "sut")).CombinedOutput()
	if len(out) > 0 && verbose {
		fmt.Printf("selftest: map iterations in simulator sources (must not feed choices or the history):\n%s", out)
	}
	if bad > 0 {
		fmt.Printf("selftest: %d of %d comparisons diverged (%d more replayed identically in isolation)\n", bad, total, loadNoise)
		return bad, total, loadNoise
	}
	if verbose {
		fmt.Printf("selftest: %d comparisons identical, %d differed under load but replay identically in isolation\n", total-loadNoise, loadNoise)
	}
	return 0, total, loadNoise
}
