// yieldify makes a scratch copy of the repository in which chosen files carry a
// simhook.Yield("file:func:line") call before every statement, so that the simulator can
// park a goroutine between any two statements of those files (DESIGN 3.5).
//
//	yieldify <repo> <dst> <relative file>...
package main

import (
	"bytes"
	"fmt"
	"go/ast"
	"go/format"
	"go/parser"
	"go/token"
	"io"
	"os"
	"path/filepath"
	"strconv"
	"strings"
)

const hookPkg = `// Package simhook is added by yieldify to the scratch copy only.
package simhook

// Hook is set by the simulator.
var Hook func(site string)

// Yield is called before every statement of the instrumented files.
func Yield(site string) {
	if Hook != nil {
		Hook(site)
	}
}
`

func main() {
	if len(os.Args) < 4 {
		fmt.Fprintln(os.Stderr, "usage: yieldify <repo> <dst> <file>...")
		os.Exit(2)
	}
	repo, dst := os.Args[1], os.Args[2]
	if err := copyTree(repo, dst); err != nil {
		fmt.Fprintln(os.Stderr, "copy:", err)
		os.Exit(2)
	}
	if err := os.MkdirAll(filepath.Join(dst, "simhook"), 0o755); err != nil {
		fmt.Fprintln(os.Stderr, err)
		os.Exit(2)
	}
	os.WriteFile(filepath.Join(dst, "simhook", "simhook.go"), []byte(hookPkg), 0o644)
	total := 0
	for _, rel := range os.Args[3:] {
		n, err := instrument(filepath.Join(dst, rel), filepath.Base(rel))
		if err != nil {
			fmt.Fprintln(os.Stderr, "instrument", rel+":", err)
			os.Exit(2)
		}
		total += n
	}
	fmt.Printf("yieldify: %d yield sites\n", total)
}

func copyTree(src, dst string) error {
	return filepath.Walk(src, func(p string, info os.FileInfo, err error) error {
		if err != nil {
			return err
		}
		rel, _ := filepath.Rel(src, p)
		if info.IsDir() {
			if info.Name() == ".git" || info.Name() == "docs" {
				return filepath.SkipDir
			}
			return os.MkdirAll(filepath.Join(dst, rel), 0o755)
		}
		if !(strings.HasSuffix(p, ".go") || info.Name() == "go.mod" || info.Name() == "go.sum") || strings.HasSuffix(p, "_test.go") {
			return nil
		}
		in, err := os.Open(p)
		if err != nil {
			return err
		}
		defer in.Close()
		out, err := os.Create(filepath.Join(dst, rel))
		if err != nil {
			return err
		}
		defer out.Close()
		_, err = io.Copy(out, in)
		return err
	})
}

type inst struct {
	fset *token.FileSet
	base string
	fn   string
	n    int
	held int // > 0 while instrumenting statements nested inside a locked region
}

func (in *inst) yield(pos token.Pos) ast.Stmt {
	in.n++
	site := in.base + ":" + in.fn + ":" + strconv.Itoa(in.fset.Position(pos).Line)
	return &ast.ExprStmt{X: &ast.CallExpr{
		Fun:  &ast.SelectorExpr{X: ast.NewIdent("simhook"), Sel: ast.NewIdent("Yield")},
		Args: []ast.Expr{&ast.BasicLit{Kind: token.STRING, Value: strconv.Quote(site)}},
	}}
}

// lockCall reports whether s is a call statement x.Lock()/x.RLock() (+1) or
// x.Unlock()/x.RUnlock() (-1).
func lockCall(s ast.Stmt) int {
	es, ok := s.(*ast.ExprStmt)
	if !ok {
		return 0
	}
	call, ok := es.X.(*ast.CallExpr)
	if !ok {
		return 0
	}
	sel, ok := call.Fun.(*ast.SelectorExpr)
	if !ok {
		return 0
	}
	switch sel.Sel.Name {
	case "Lock", "RLock":
		return 1
	case "Unlock", "RUnlock":
		return -1
	}
	return 0
}

func (in *inst) list(stmts []ast.Stmt) []ast.Stmt {
	var out []ast.Stmt
	held := 0
	for _, s := range stmts {
		// never park with a lock held: a goroutine blocked on a mutex is not durably
		// blocked for synctest, the simulation would stall
		if held == 0 && in.held == 0 {
			in.stmt(s)
			out = append(out, in.yield(s.Pos()), s)
		} else {
			in.held++
			in.stmt(s)
			in.held--
			out = append(out, s)
		}
		held += lockCall(s)
		if held < 0 {
			held = 0
		}
	}
	return out
}

// stmt instruments the blocks nested in s.
func (in *inst) stmt(s ast.Stmt) {
	switch t := s.(type) {
	case *ast.BlockStmt:
		t.List = in.list(t.List)
	case *ast.IfStmt:
		in.stmt(t.Body)
		if t.Else != nil {
			in.stmt(t.Else)
		}
	case *ast.ForStmt:
		in.stmt(t.Body)
	case *ast.RangeStmt:
		in.stmt(t.Body)
	case *ast.SwitchStmt:
		in.clauses(t.Body)
	case *ast.TypeSwitchStmt:
		in.clauses(t.Body)
	case *ast.SelectStmt:
		in.clauses(t.Body)
	case *ast.LabeledStmt:
		in.stmt(t.Stmt)
	case *ast.GoStmt:
		in.funcLits(t.Call)
	case *ast.DeferStmt:
		in.funcLits(t.Call)
	case *ast.ExprStmt:
		in.funcLits(t.X)
	case *ast.AssignStmt:
		for _, e := range t.Rhs {
			in.funcLits(e)
		}
	case *ast.ReturnStmt:
		for _, e := range t.Results {
			in.funcLits(e)
		}
	}
}

func (in *inst) clauses(b *ast.BlockStmt) {
	for _, c := range b.List {
		switch cc := c.(type) {
		case *ast.CaseClause:
			cc.Body = in.list(cc.Body)
		case *ast.CommClause:
			cc.Body = in.list(cc.Body)
		}
	}
}

// funcLits instruments function literals inside an expression (goroutine bodies).
func (in *inst) funcLits(e ast.Node) {
	if e == nil {
		return
	}
	ast.Inspect(e, func(n ast.Node) bool {
		if fl, ok := n.(*ast.FuncLit); ok {
			fl.Body.List = in.list(fl.Body.List)
			return false
		}
		return true
	})
}

func instrument(path, base string) (int, error) {
	fset := token.NewFileSet()
	f, err := parser.ParseFile(fset, path, nil, 0) // comments dropped on purpose
	if err != nil {
		return 0, err
	}
	in := &inst{fset: fset, base: base}
	for _, d := range f.Decls {
		fd, ok := d.(*ast.FuncDecl)
		if !ok || fd.Body == nil {
			continue
		}
		in.fn = fd.Name.Name
		fd.Body.List = in.list(fd.Body.List)
	}
	imp := &ast.GenDecl{Tok: token.IMPORT, Specs: []ast.Spec{&ast.ImportSpec{Path: &ast.BasicLit{Kind: token.STRING, Value: strconv.Quote("github.com/facebookincubator/tacquito/simhook")}}}}
	f.Decls = append([]ast.Decl{imp}, f.Decls...)
	var buf bytes.Buffer
	if err := format.Node(&buf, token.NewFileSet(), f); err != nil {
		return 0, err
	}
	return in.n, os.WriteFile(path, buf.Bytes(), 0o644)
}
