package world

import (
	"io"
	"net"
	"sync"
	"time"
)

// pipe is one direction of a simulated TCP byte stream.
type pipe struct {
	inflight []byte // written by the sender, not yet delivered to the receiver
	readable []byte // delivered, not yet read
	fin      bool   // sender closed; EOF once everything is delivered and read
	rst      bool   // connection reset: reads fail at once
	total    int    // total bytes ever written by the sender
	direct   bool   // deliver at once (no segmentation by the scheduler)
}

// WriteFault describes what happens to the k-th Write call of the server end.
type WriteFault struct {
	At   int    `json:"at"`   // 1-based index of the Write call
	Kind string `json:"kind"` // "error" | "short" | "park"
}

// Conn is a simulated TCP connection. End A is the accepting (server) side, end B the
// dialling (client) side.
type Conn struct {
	// EOFWithData: a read that returns the last bytes of a closed stream returns io.EOF
	// with them instead of on the next call
	EOFWithData bool
	w           *World
	ID          int
	mu          sync.Mutex
	c2s         pipe
	s2c         pipe
	A, B        *End
	WFault      []WriteFault
	nWrite      int
	// bookkeeping visible to oracles
	Accepted bool
}

// End is one endpoint; it implements net.Conn.
type End struct {
	c         *Conn
	server    bool
	rd, wr    *pipe
	local     net.Addr
	remote    net.Addr
	deadline  time.Time
	wdeadline time.Time
	wake      chan struct{}
	closed    bool
	actor     string
}

// NonTCPAddr is a net.Addr that is not a *net.TCPAddr.
type NonTCPAddr struct{ S string }

func (a NonTCPAddr) Network() string { return "sim" }
func (a NonTCPAddr) String() string  { return a.S }

// NewConn creates a connection; remote is the address the server sees for the client.
func (w *World) NewConn(id int, remote net.Addr, s2cSegmented bool) *Conn {
	c := &Conn{w: w, ID: id}
	c.s2c.direct = !s2cSegmented
	local := &net.TCPAddr{IP: net.ParseIP("192.0.2.1"), Port: 49}
	c.A = &End{c: c, server: true, rd: &c.c2s, wr: &c.s2c, local: local, remote: remote, wake: make(chan struct{}, 1), actor: "conn"}
	c.B = &End{c: c, server: false, rd: &c.s2c, wr: &c.c2s, local: remote, remote: local, wake: make(chan struct{}, 1), actor: "cli"}
	w.Conns = append(w.Conns, c)
	return c
}

func (e *End) poke() {
	select {
	case e.wake <- struct{}{}:
	default:
	}
}

func (e *End) peer() *End {
	if e.server {
		return e.c.B
	}
	return e.c.A
}

// Read implements net.Conn. It blocks only on bubble channels and timers.
func (e *End) Read(p []byte) (int, error) {
	c := e.c
	if e.server {
		c.w.Rec(Ev{Actor: e.actor, Kind: "read-begin", Conn: c.ID, A: int64(len(p))})
	}
	n, err := e.read(p)
	if e.server {
		s := ""
		if err != nil {
			s = err.Error()
		}
		c.w.Rec(Ev{Actor: e.actor, Kind: "read-end", Conn: c.ID, A: int64(n), S: s})
	}
	return n, err
}

func (e *End) read(p []byte) (int, error) {
	c := e.c
	for {
		c.mu.Lock()
		if e.closed {
			c.mu.Unlock()
			return 0, &net.OpError{Op: "read", Net: "tcp", Err: net.ErrClosed}
		}
		if e.rd.rst {
			c.mu.Unlock()
			return 0, &net.OpError{Op: "read", Net: "tcp", Err: fatalError{"connection reset by peer"}}
		}
		if len(e.rd.readable) > 0 {
			if len(p) == 0 {
				c.mu.Unlock()
				return 0, nil
			}
			n := copy(p, e.rd.readable)
			e.rd.readable = e.rd.readable[n:]
			last := c.EOFWithData && e.rd.fin && len(e.rd.readable) == 0 && len(e.rd.inflight) == 0
			c.mu.Unlock()
			if last {
				// legal for an io.Reader (and what TLS and other layered transports do): the
				// last bytes of the stream arrive together with the end of the stream
				c.w.Fault("eof-with-last-bytes")
				return n, io.EOF
			}
			return n, nil
		}
		if e.rd.fin && len(e.rd.inflight) == 0 {
			c.mu.Unlock()
			return 0, io.EOF
		}
		dl := e.deadline
		c.mu.Unlock()
		if !dl.IsZero() && time.Until(dl) <= 0 {
			if e.server {
				c.w.Fault("read-deadline-fired")
			}
			return 0, &net.OpError{Op: "read", Net: "tcp", Err: timeoutError{}}
		}
		// No timer of its own: the fake clock only moves while the scheduler sleeps, and
		// after every sleep the scheduler wakes the endpoints whose deadline has passed,
		// in a fixed order (World.ExpireDeadlines). Simultaneous expiries are thereby
		// ordered by the run, not by the runtime's timer heap.
		<-e.wake
	}
}

// Write implements net.Conn.
func (e *End) Write(p []byte) (int, error) {
	c := e.c
	if !e.server {
		c.mu.Lock()
		if e.closed {
			c.mu.Unlock()
			return 0, &net.OpError{Op: "write", Net: "tcp", Err: net.ErrClosed}
		}
		e.wr.inflight = append(e.wr.inflight, p...)
		e.wr.total += len(p)
		c.mu.Unlock()
		c.w.Rec(Ev{Actor: e.actor, Kind: "cwrite", Conn: c.ID, A: int64(len(p))})
		return len(p), nil
	}
	c.mu.Lock()
	if e.closed {
		c.mu.Unlock()
		c.w.Rec(Ev{Actor: e.actor, Kind: "write-closed", Conn: c.ID, A: int64(len(p))})
		return 0, &net.OpError{Op: "write", Net: "tcp", Err: net.ErrClosed}
	}
	if !e.wdeadline.IsZero() && !time.Now().Before(e.wdeadline) {
		// a write deadline armed by the code under test has passed: as on a TCP socket
		c.mu.Unlock()
		c.w.Rec(Ev{Actor: e.actor, Kind: "write", Conn: c.ID, A: 0, B: int64(len(p)), S: "write-deadline", Bytes: append([]byte(nil), p...)})
		return 0, &net.OpError{Op: "write", Net: "tcp", Err: timeoutError{}}
	}
	c.nWrite++
	k := c.nWrite
	var wf *WriteFault
	for i := range c.WFault {
		if c.WFault[i].At == k {
			wf = &c.WFault[i]
		}
	}
	c.mu.Unlock()
	cp := append([]byte(nil), p...)
	if wf != nil {
		switch wf.Kind {
		case "error":
			c.w.Fault("write-error")
			c.w.Rec(Ev{Actor: e.actor, Kind: "write", Conn: c.ID, A: 0, B: int64(len(p)), S: "error", Bytes: cp})
			return 0, &net.OpError{Op: "write", Net: "tcp", Err: fatalError{"broken pipe"}}
		case "short":
			c.w.Fault("short-write")
			n := len(p) / 2
			c.mu.Lock()
			e.wr.push(p[:n])
			c.mu.Unlock()
			e.peer().poke()
			c.w.Rec(Ev{Actor: e.actor, Kind: "write", Conn: c.ID, A: int64(n), B: int64(len(p)), S: "short", Bytes: cp})
			return n, io.ErrShortWrite
		case "park":
			c.w.Fault("write-park")
			c.w.Rec(Ev{Actor: e.actor, Kind: "write-blocked", Conn: c.ID, A: int64(len(p))})
			c.w.parkAlways("write")
			// the peer did not read for a while: if the code under test armed a write
			// deadline and it has passed meanwhile, only part of the data went out
			c.mu.Lock()
			late := !e.wdeadline.IsZero() && !time.Now().Before(e.wdeadline) && !e.closed
			if late {
				n := len(p) / 2
				e.wr.push(p[:n])
				c.mu.Unlock()
				e.peer().poke()
				c.w.Rec(Ev{Actor: e.actor, Kind: "write", Conn: c.ID, A: int64(n), B: int64(len(p)), S: "write-deadline", Bytes: cp})
				return n, &net.OpError{Op: "write", Net: "tcp", Err: timeoutError{}}
			}
			c.mu.Unlock()
		}
	}
	c.mu.Lock()
	if e.closed {
		c.mu.Unlock()
		return 0, &net.OpError{Op: "write", Net: "tcp", Err: net.ErrClosed}
	}
	rst := e.wr.rst
	if !rst {
		e.wr.push(p)
	}
	c.mu.Unlock()
	if rst {
		c.w.Rec(Ev{Actor: e.actor, Kind: "write", Conn: c.ID, A: 0, B: int64(len(p)), S: "reset", Bytes: cp})
		return 0, &net.OpError{Op: "write", Net: "tcp", Err: fatalError{"connection reset by peer"}}
	}
	e.peer().poke()
	c.w.Rec(Ev{Actor: e.actor, Kind: "write", Conn: c.ID, A: int64(len(p)), B: int64(len(p)), Bytes: cp})
	return len(p), nil
}

func (p *pipe) push(b []byte) {
	p.total += len(b)
	if p.direct {
		p.readable = append(p.readable, b...)
	} else {
		p.inflight = append(p.inflight, b...)
	}
}

// parkAlways parks regardless of arming (used by the write-park fault).
func (w *World) parkAlways(site string) {
	w.mu.Lock()
	w.parkSeq++
	p := &parked{id: w.parkSeq, site: site, ch: make(chan struct{})}
	w.parkedL = append(w.parkedL, p)
	w.mu.Unlock()
	w.Rec(Ev{Actor: "park", Kind: "parked", A: int64(p.id), S: site})
	<-p.ch
}

// Close implements net.Conn.
func (e *End) Close() error {
	c := e.c
	if e.server {
		// closing can take a while (a lingering socket): a parking seam, armed as
		// "conn-close", before anything is closed
		if c.w.Quiet {
			c.w.QuietYield("conn-close")
		} else if c.w.siteArmedNow("conn-close") {
			c.w.Rec(Ev{Actor: e.actor, Kind: "close-begin", Conn: c.ID})
			c.w.Park("conn-close")
		}
	}
	c.mu.Lock()
	already := e.closed
	e.closed = true
	e.wr.fin = true
	c.mu.Unlock()
	if e.server {
		k := "close"
		if already {
			k = "close-again"
		}
		c.w.Rec(Ev{Actor: e.actor, Kind: k, Conn: c.ID})
	}
	e.poke()
	e.peer().poke()
	if already {
		return &net.OpError{Op: "close", Net: "tcp", Err: net.ErrClosed}
	}
	return nil
}

func (e *End) LocalAddr() net.Addr  { return e.local }
func (e *End) RemoteAddr() net.Addr { return e.remote }

func (e *End) SetDeadline(t time.Time) error {
	e.SetWriteDeadline(t)
	return e.SetReadDeadline(t)
}
func (e *End) SetReadDeadline(t time.Time) error {
	c := e.c
	c.mu.Lock()
	e.deadline = t
	c.mu.Unlock()
	if e.server {
		var rel int64 = -1
		if !t.IsZero() {
			rel = int64(t.Sub(c.w.start))
		}
		c.w.Rec(Ev{Actor: e.actor, Kind: "set-read-deadline", Conn: c.ID, A: rel})
	}
	e.poke()
	return nil
}
func (e *End) SetWriteDeadline(t time.Time) error {
	e.c.mu.Lock()
	e.wdeadline = t
	e.c.mu.Unlock()
	if e.server {
		e.c.w.Rec(Ev{Actor: e.actor, Kind: "set-write-deadline", Conn: e.c.ID})
	}
	return nil
}

// ---- scheduler-side operations ----------------------------------------------

// ClientWrite puts bytes on the wire towards the server (model clients).
func (c *Conn) ClientWrite(b []byte) {
	c.mu.Lock()
	c.c2s.inflight = append(c.c2s.inflight, b...)
	c.c2s.total += len(b)
	c.mu.Unlock()
}

// InflightC2S is the number of client bytes not yet delivered to the server.
func (c *Conn) InflightC2S() int { c.mu.Lock(); defer c.mu.Unlock(); return len(c.c2s.inflight) }

// InflightS2C is the number of server bytes not yet delivered to the client end.
func (c *Conn) InflightS2C() int { c.mu.Lock(); defer c.mu.Unlock(); return len(c.s2c.inflight) }

// PeekInflightC2S returns a copy of the undelivered client bytes.
func (c *Conn) PeekInflightC2S() []byte {
	c.mu.Lock()
	defer c.mu.Unlock()
	return append([]byte(nil), c.c2s.inflight...)
}

// DeliverC2S moves n in-flight client bytes to the server's readable buffer.
func (c *Conn) DeliverC2S(n int) {
	c.mu.Lock()
	if n > len(c.c2s.inflight) {
		n = len(c.c2s.inflight)
	}
	c.c2s.readable = append(c.c2s.readable, c.c2s.inflight[:n]...)
	c.c2s.inflight = c.c2s.inflight[n:]
	c.mu.Unlock()
	c.w.Rec(Ev{Actor: "sched", Kind: "deliver", Conn: c.ID, A: int64(n)})
	c.A.poke()
}

// DeliverS2C moves n in-flight server bytes to the client end's readable buffer.
func (c *Conn) DeliverS2C(n int) {
	c.mu.Lock()
	if n > len(c.s2c.inflight) {
		n = len(c.s2c.inflight)
	}
	c.s2c.readable = append(c.s2c.readable, c.s2c.inflight[:n]...)
	c.s2c.inflight = c.s2c.inflight[n:]
	c.mu.Unlock()
	c.w.Rec(Ev{Actor: "sched", Kind: "deliver-s2c", Conn: c.ID, A: int64(n)})
	c.B.poke()
}

// ClientTake removes and returns everything the server has written that the model
// client has not consumed yet.
func (c *Conn) ClientTake() []byte {
	c.mu.Lock()
	b := c.s2c.readable
	c.s2c.readable = nil
	c.mu.Unlock()
	return b
}

// ClientClose is an orderly close by the client: EOF after in-flight bytes.
func (c *Conn) ClientClose() {
	c.mu.Lock()
	c.c2s.fin = true
	c.B.closed = true
	c.mu.Unlock()
	c.w.Rec(Ev{Actor: "cli", Kind: "client-close", Conn: c.ID})
	c.A.poke()
}

// ClientReset aborts the connection: pending bytes are lost, reads and writes of the
// server fail.
func (c *Conn) ClientReset() {
	c.mu.Lock()
	c.c2s.rst = true
	c.s2c.rst = true
	c.c2s.inflight = nil
	c.c2s.readable = nil
	c.B.closed = true
	c.mu.Unlock()
	c.w.Fault("reset")
	c.w.Rec(Ev{Actor: "cli", Kind: "client-reset", Conn: c.ID})
	c.A.poke()
}

// expire wakes the endpoint if its read deadline has passed.
func (e *End) expire() {
	c := e.c
	c.mu.Lock()
	hit := !e.deadline.IsZero() && !time.Now().Before(e.deadline) && !e.closed
	c.mu.Unlock()
	if hit {
		e.poke()
	}
}

// ExpireDeadlines wakes, in a fixed order (listener, then connections by id, server end
// before client end), every endpoint whose deadline has passed. Called by the scheduler
// after each advance of the fake clock.
func (w *World) ExpireDeadlines() {
	w.Listener.expire()
	for _, c := range w.connsByID() {
		c.A.expire()
		c.B.expire()
	}
}

func (w *World) connsByID() []*Conn {
	out := append([]*Conn(nil), w.Conns...)
	for i := 1; i < len(out); i++ {
		for j := i; j > 0 && out[j-1].ID > out[j].ID; j-- {
			out[j-1], out[j] = out[j], out[j-1]
		}
	}
	return out
}

// ServerClosed reports whether the server end has been closed by the server.
func (c *Conn) ServerClosed() bool { c.mu.Lock(); defer c.mu.Unlock(); return c.A.closed }

// ClientClosed reports whether the client end was closed or reset.
func (c *Conn) ClientClosed() bool { c.mu.Lock(); defer c.mu.Unlock(); return c.B.closed }

// ServerReadDeadline returns the currently armed read deadline of the server end.
func (c *Conn) ServerReadDeadline() time.Time { c.mu.Lock(); defer c.mu.Unlock(); return c.A.deadline }

// PendingEOF reports whether the client has closed and all bytes are delivered.
func (c *Conn) PendingEOF() bool {
	c.mu.Lock()
	defer c.mu.Unlock()
	return c.c2s.fin && len(c.c2s.inflight) == 0
}

// ---- model-server side (scenarios without a tacquito server) -------------------

// ServerSideTake removes and returns everything the client end has written.
func (c *Conn) ServerSideTake() []byte {
	c.mu.Lock()
	b := c.c2s.inflight
	c.c2s.inflight = nil
	c.mu.Unlock()
	return b
}

// ServerSideWrite puts model-server bytes in flight towards the client end.
func (c *Conn) ServerSideWrite(b []byte) {
	c.mu.Lock()
	c.s2c.inflight = append(c.s2c.inflight, b...)
	c.s2c.total += len(b)
	c.mu.Unlock()
}

// ServerSideClose closes the model server's side: the client end sees EOF after the
// bytes in flight.
func (c *Conn) ServerSideClose() {
	c.mu.Lock()
	c.s2c.fin = true
	c.A.closed = true
	c.mu.Unlock()
	c.B.poke()
}

// S2CFinPending reports that the server side has closed (EOF follows in-flight bytes).
func (c *Conn) S2CFinPending() bool { c.mu.Lock(); defer c.mu.Unlock(); return c.s2c.fin }

// ClientReadDeadline returns the client end's armed deadline.
func (c *Conn) ClientReadDeadline() time.Time { c.mu.Lock(); defer c.mu.Unlock(); return c.B.deadline }
