// Package world is the simulated environment: transport, listener, logger, accounting
// sink, parking seams, tape and history. Everything in it lives inside one
// testing/synctest bubble; time is the bubble's fake clock.
package world

import (
	"fmt"
	"runtime"
	"sync"
	"time"
)

// Ev is one history record. Order in World.Events is the order in which the seams were
// reached (raw execution order); Step is the scheduler step during which it happened.
type Ev struct {
	Seq   int    `json:"seq"`
	Step  int    `json:"step"`
	T     int64  `json:"t"` // fake ns since start of run
	Actor string `json:"actor"`
	Kind  string `json:"kind"`
	Conn  int    `json:"conn,omitempty"`
	A     int64  `json:"a,omitempty"`
	B     int64  `json:"b,omitempty"`
	S     string `json:"s,omitempty"`
	Bytes []byte `json:"bytes,omitempty"`
}

// Tape is the only source of choice during a run.
type Tape struct {
	vals []uint32
	pos  int
	Used int
}

func NewTape(v []uint32) *Tape { return &Tape{vals: v} }

// Next returns the next tape value; an exhausted tape yields 0 forever.
func (t *Tape) Next() uint32 {
	t.Used++
	if t.pos >= len(t.vals) {
		return 0
	}
	v := t.vals[t.pos]
	t.pos++
	return v
}

// Pick returns a value in [0,n).
func (t *Tape) Pick(n int) int {
	if n <= 1 {
		if n == 1 {
			t.Next()
		}
		return 0
	}
	return int(t.Next() % uint32(n))
}

type parked struct {
	id   int
	site string
	ch   chan struct{}
}

// World holds the shared simulation state.
type World struct {
	mu     sync.Mutex
	start  time.Time
	step   int
	Events []Ev

	armed   []string // parking site prefixes armed for this run
	parkedL []*parked
	parkSeq int

	Faults map[string]int // fired fault counts by kind
	Probes map[string]int // reach probes
	Tape   *Tape

	Conns    []*Conn
	Listener *Listener
	Log      *Logger
	Sink     *Sink

	// Quiet: the logger and sink seams neither record nor park. Used by race-detector
	// runs: every shared access of the harness inside a handler would create a
	// happens-before edge between connection goroutines and hide their races.
	Quiet bool
	// LogBytes disables recording of payload bytes for large transfers when false.
	maxEvents int
	Overflow  bool
}

// New creates a world. Must be called inside the bubble.
func New(tape *Tape, armed []string) *World {
	w := &World{start: time.Now(), Tape: tape, armed: armed, Faults: map[string]int{}, Probes: map[string]int{}, maxEvents: 400000}
	w.Log = &Logger{w: w}
	w.Sink = &Sink{w: w}
	w.Listener = newListener(w)
	return w
}

// Now is fake nanoseconds since the start of the run.
func (w *World) Now() int64 { return int64(time.Since(w.start)) }

// Step returns the current scheduler step.
func (w *World) Step() int { w.mu.Lock(); defer w.mu.Unlock(); return w.step }

// SetStep is called by the scheduler.
func (w *World) SetStep(s int) { w.mu.Lock(); w.step = s; w.mu.Unlock() }

// Rec appends a history record.
func (w *World) Rec(e Ev) {
	w.mu.Lock()
	defer w.mu.Unlock()
	if len(w.Events) >= w.maxEvents {
		w.Overflow = true
		return
	}
	e.Seq = len(w.Events)
	e.Step = w.step
	e.T = int64(time.Since(w.start))
	w.Events = append(w.Events, e)
}

// Arm sets the parking sites of the run.
func (w *World) Arm(sites []string) { w.mu.Lock(); w.armed = sites; w.mu.Unlock() }

// EventsSince returns a copy of the history from index i on.
func (w *World) EventsSince(i int) []Ev {
	w.mu.Lock()
	defer w.mu.Unlock()
	if i >= len(w.Events) {
		return nil
	}
	return append([]Ev(nil), w.Events[i:]...)
}

// DropHistory detaches the history from the world once the run's result has taken it.
func (w *World) DropHistory() {
	w.mu.Lock()
	w.Events = nil
	w.maxEvents = 0
	w.mu.Unlock()
}

// Fault counts a fault that actually fired.
func (w *World) Fault(kind string) { w.mu.Lock(); w.Faults[kind]++; w.mu.Unlock() }

// Probe counts a reach probe.
func (w *World) Probe(name string) { w.mu.Lock(); w.Probes[name]++; w.mu.Unlock() }

func (w *World) siteArmed(site string) bool {
	for _, a := range w.armed {
		if len(a) <= len(site) && site[:len(a)] == a {
			return true
		}
	}
	return false
}

// Park blocks the calling goroutine at a named seam until the scheduler releases it,
// if that site is armed in this run. It must never be called with a lock held.
func (w *World) Park(site string) {
	w.mu.Lock()
	if !w.siteArmed(site) {
		w.mu.Unlock()
		return
	}
	w.parkSeq++
	p := &parked{id: w.parkSeq, site: site, ch: make(chan struct{})}
	w.parkedL = append(w.parkedL, p)
	w.mu.Unlock()
	w.Rec(Ev{Actor: "park", Kind: "parked", A: int64(p.id), S: site})
	<-p.ch
}

// siteArmedNow reports whether a parking site is armed at this moment.
func (w *World) siteArmedNow(site string) bool {
	w.mu.Lock()
	defer w.mu.Unlock()
	return w.siteArmed(site)
}

// QuietYield is the seam behaviour of race-detector runs: at an armed site the calling
// goroutine yields the processor (runtime.Gosched) so that another runnable connection
// goroutine overtakes it inside the handler. No shared state is touched: the armed list
// is immutable in quiet runs.
func (w *World) QuietYield(site string) {
	for _, a := range w.armed {
		if len(a) <= len(site) && site[:len(a)] == a {
			runtime.Gosched()
			return
		}
	}
}

// Parked lists the parked seams (id, site) in arrival order.
func (w *World) Parked() (ids []int, sites []string) {
	w.mu.Lock()
	defer w.mu.Unlock()
	for _, p := range w.parkedL {
		ids = append(ids, p.id)
		sites = append(sites, p.site)
	}
	return
}

// Release lets the i-th parked goroutine continue.
func (w *World) Release(i int) {
	w.mu.Lock()
	if i < 0 || i >= len(w.parkedL) {
		w.mu.Unlock()
		return
	}
	p := w.parkedL[i]
	w.parkedL = append(w.parkedL[:i:i], w.parkedL[i+1:]...)
	w.mu.Unlock()
	w.Faults["park-release"]++
	w.Rec(Ev{Actor: "sched", Kind: "release", A: int64(p.id), S: p.site})
	close(p.ch)
}

// Disarm removes all armed sites and releases everything parked (used at the end of a
// run so that liveness can be judged with no seam held).
func (w *World) Disarm() {
	w.mu.Lock()
	if !w.Quiet {
		w.armed = nil
	}
	l := w.parkedL
	w.parkedL = nil
	w.mu.Unlock()
	for _, p := range l {
		w.Rec(Ev{Actor: "sched", Kind: "release", A: int64(p.id), S: p.site})
		close(p.ch)
	}
}

// ---- errors that look like the ones a TCP socket returns ---------------------

type timeoutError struct{}

func (timeoutError) Error() string   { return "i/o timeout" }
func (timeoutError) Timeout() bool   { return true }
func (timeoutError) Temporary() bool { return true }

type tempError struct{ msg string }

func (e tempError) Error() string   { return e.msg }
func (e tempError) Timeout() bool   { return false }
func (e tempError) Temporary() bool { return true }

type fatalError struct{ msg string }

func (e fatalError) Error() string   { return e.msg }
func (e fatalError) Timeout() bool   { return false }
func (e fatalError) Temporary() bool { return false }

func (w *World) String() string {
	return fmt.Sprintf("world(step=%d events=%d)", w.step, len(w.Events))
}
