package world

import (
	"context"
	"fmt"
	"sort"
	"strings"
)

// ctxKey mirrors the string-typed context keys the handlers use; the logger stores
// retained fields under the key value it is handed.

// Logger is the simulated logging backend. It satisfies every loggerProvider
// interface of tacquito and of the reference server.
type Logger struct {
	w *World
	// Retain: when set, Set() stores the selected fields in the returned context, as
	// a retaining logger (the commented-out reference implementation) would.
	Retain func(ctx context.Context, key string, val string) context.Context
}

func (l *Logger) emit(level, format string, args ...interface{}) {
	if l.w.Quiet {
		l.w.QuietYield("log:" + format)
		return
	}
	msg := fmt.Sprintf(format, args...)
	l.w.Rec(Ev{Actor: "log", Kind: "log", S: level + "|" + format + "|" + msg})
	l.w.Park("log:" + format)
}

func (l *Logger) Infof(ctx context.Context, format string, args ...interface{}) {
	l.emit("info", format, args...)
}
func (l *Logger) Errorf(ctx context.Context, format string, args ...interface{}) {
	l.emit("error", format, args...)
}
func (l *Logger) Debugf(ctx context.Context, format string, args ...interface{}) {
	l.emit("debug", format, args...)
}

// Record stores the record minus the keys this very call asks to obscure.
func (l *Logger) Record(ctx context.Context, r map[string]string, obscure ...string) {
	if l.w.Quiet {
		l.w.QuietYield("log:record")
		return
	}
	keys := make([]string, 0, len(r))
	ob := map[string]bool{}
	for _, k := range obscure {
		ob[k] = true
	}
	for k := range r {
		if !ob[k] {
			keys = append(keys, k)
		}
	}
	sort.Strings(keys)
	var b strings.Builder
	for _, k := range keys {
		fmt.Fprintf(&b, "%s=%s\x1f", k, r[k])
	}
	l.w.Rec(Ev{Actor: "log", Kind: "record", S: b.String()})
	l.w.Park("log:record")
}

// SetFields is the shared implementation used by the typed adapter in package sut.
func (l *Logger) SetFields(ctx context.Context, fields map[string]string, keys []string) context.Context {
	if l.w.Quiet {
		return ctx
	}
	var b strings.Builder
	for _, k := range keys {
		if v, ok := fields[k]; ok {
			fmt.Fprintf(&b, "%s=%s\x1f", k, v)
			if l.Retain != nil {
				ctx = l.Retain(ctx, k, v)
			}
		}
	}
	l.w.Rec(Ev{Actor: "log", Kind: "retain", S: b.String()})
	return ctx
}

// Sink is the simulated accounting log: it renders exactly what log.Logger.Printf would.
type Sink struct {
	w *World
}

func (s *Sink) Printf(format string, args ...interface{}) {
	if s.w.Quiet {
		s.w.QuietYield("sink")
		return
	}
	// a sink may be slow to take its argument: it parks before rendering, so a caller
	// that hands it memory it goes on to reuse is exposed
	s.w.Park("sink")
	s.w.Rec(Ev{Actor: "sink", Kind: "sink", S: fmt.Sprintf(format, args...)})
}
