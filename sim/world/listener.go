package world

import (
	"net"
	"sync"
	"time"
)

// Listener implements tacquito.DeadlineListener over the simulated network.
type Listener struct {
	w        *World
	mu       sync.Mutex
	queue    []*Conn
	deadline time.Time
	wake     chan struct{}
	closed   bool
	faults   []string // queued accept results: "temp" | "fatal" | "plain"
	Accepts  int
	addr     net.Addr
}

func newListener(w *World) *Listener {
	return &Listener{w: w, wake: make(chan struct{}, 1), addr: &net.TCPAddr{IP: net.ParseIP("192.0.2.1"), Port: 49}}
}

func (l *Listener) poke() {
	select {
	case l.wake <- struct{}{}:
	default:
	}
}

// Dial queues a connection for Accept.
func (l *Listener) Dial(c *Conn) {
	l.mu.Lock()
	l.queue = append(l.queue, c)
	l.mu.Unlock()
	l.w.Rec(Ev{Actor: "sched", Kind: "dial", Conn: c.ID, S: c.A.remote.String()})
	l.poke()
}

// InjectAcceptFault makes the next Accept return an error of the given kind.
func (l *Listener) InjectAcceptFault(kind string) {
	l.mu.Lock()
	l.faults = append(l.faults, kind)
	l.mu.Unlock()
	l.poke()
}

// Accept implements net.Listener.
func (l *Listener) Accept() (net.Conn, error) {
	l.w.Rec(Ev{Actor: "acceptor", Kind: "accept-begin"})
	for {
		l.mu.Lock()
		if l.closed {
			l.mu.Unlock()
			l.w.Rec(Ev{Actor: "acceptor", Kind: "accept-end", S: "closed"})
			return nil, &net.OpError{Op: "accept", Net: "tcp", Err: net.ErrClosed}
		}
		if len(l.faults) > 0 {
			f := l.faults[0]
			l.faults = l.faults[1:]
			l.mu.Unlock()
			l.w.Fault("accept-" + f)
			l.w.Rec(Ev{Actor: "acceptor", Kind: "accept-end", S: f})
			switch f {
			case "temp":
				return nil, &net.OpError{Op: "accept", Net: "tcp", Err: tempError{"too many open files"}}
			case "fatal":
				return nil, &net.OpError{Op: "accept", Net: "tcp", Err: fatalError{"invalid argument"}}
			default:
				return nil, tempError{"plain accept error"}
			}
		}
		if len(l.queue) > 0 {
			c := l.queue[0]
			l.queue = l.queue[1:]
			l.Accepts++
			c.Accepted = true
			l.mu.Unlock()
			l.w.Rec(Ev{Actor: "acceptor", Kind: "accept-end", Conn: c.ID, S: "conn"})
			return c.A, nil
		}
		dl := l.deadline
		l.mu.Unlock()
		if !dl.IsZero() && time.Until(dl) <= 0 {
			l.w.Fault("accept-timeout")
			l.w.Rec(Ev{Actor: "acceptor", Kind: "accept-end", S: "timeout"})
			return nil, &net.OpError{Op: "accept", Net: "tcp", Err: timeoutError{}}
		}
		<-l.wake // deadlines are signalled by World.ExpireDeadlines after clock advances
	}
}

func (l *Listener) expire() {
	l.mu.Lock()
	hit := !l.deadline.IsZero() && !time.Now().Before(l.deadline) && !l.closed
	l.mu.Unlock()
	if hit {
		l.poke()
	}
}

// Close implements net.Listener.
func (l *Listener) Close() error {
	l.mu.Lock()
	already := l.closed
	l.closed = true
	l.mu.Unlock()
	l.w.Rec(Ev{Actor: "acceptor", Kind: "listener-close"})
	l.poke()
	if already {
		return &net.OpError{Op: "close", Net: "tcp", Err: net.ErrClosed}
	}
	return nil
}

// Addr implements net.Listener.
func (l *Listener) Addr() net.Addr { return l.addr }

// SetDeadline implements DeadlineListener.
func (l *Listener) SetDeadline(t time.Time) error {
	l.mu.Lock()
	l.deadline = t
	l.mu.Unlock()
	l.poke()
	return nil
}

// Closed reports whether Close has been called.
func (l *Listener) Closed() bool { l.mu.Lock(); defer l.mu.Unlock(); return l.closed }

// Pending is the number of dialled, not yet accepted connections.
func (l *Listener) Pending() int { l.mu.Lock(); defer l.mu.Unlock(); return len(l.queue) }

// Deadline returns the armed accept deadline.
func (l *Listener) Deadline() time.Time { l.mu.Lock(); defer l.mu.Unlock(); return l.deadline }
