module tqsim

go 1.26.8

require (
	github.com/anishathalye/porcupine v1.3.0
	github.com/facebookincubator/tacquito v0.0.0
	github.com/fsnotify/fsnotify v1.5.4
	github.com/prometheus/client_golang v1.13.0
	github.com/prometheus/client_model v0.2.0
	gopkg.in/yaml.v3 v3.0.1
)

require (
	github.com/beorn7/perks v1.0.1 // indirect
	github.com/cespare/xxhash/v2 v2.1.2 // indirect
	github.com/golang/protobuf v1.5.2 // indirect
	github.com/matttproud/golang_protobuf_extensions v1.0.1 // indirect
	github.com/prometheus/common v0.37.0 // indirect
	github.com/prometheus/procfs v0.8.0 // indirect
	golang.org/x/crypto v0.0.0-20220817201139-bc19a97f63c8 // indirect
	golang.org/x/sys v0.0.0-20220520151302-bc2c85ada10a // indirect
	google.golang.org/protobuf v1.28.1 // indirect
)

replace github.com/facebookincubator/tacquito => /repo
