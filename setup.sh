#!/bin/bash
# Builds the vcheck driver and warms the go1.26.8 build cache (plain and -race worker), offline.
set -e
cd "$(dirname "$0")"
export GOFLAGS=-mod=mod GOPROXY=off GOSUMDB=off GOTOOLCHAIN=local
mkdir -p bin .work evidence replays
(cd sim && go1.26.8 build -o ../bin/vcheck ./cmd/vcheck)
(cd sim && go1.26.8 test -count=1 ./model >/dev/null) || { echo "model self-test failed"; exit 1; }
./bin/vcheck build plain race yield
echo "setup ok"
